#!/bin/sh
# every quick check on the current tree under the given seeds (default: the default seed); any
# non-zero exit or VIOLATION line is reported. Usage: tools/allquick.sh [seed ...]
cd /verif || exit 2
[ $# -gt 0 ] || set -- ""
bad=0
for seed in "$@"; do
    for id in C01 C02 C03 C04 C05 C06 C07 C08 C09 C10 C11 C12 C13 C14 C15 C16 C17 C18 C19 C20; do
        if [ -n "$seed" ]; then out=$(VERIF_SEED=$seed ./check.sh $id quick 2>&1); else out=$(./check.sh $id quick 2>&1); fi
        code=$?
        line=$(echo "$out" | grep -E "^\[$id\] runs=" | tail -1)
        if [ $code -ne 0 ] || echo "$out" | grep -q "^VIOLATION"; then bad=1; echo "PROBLEM seed=$seed $id exit=$code"; echo "$out" | grep -E "VIOLATION|HARNESS|violation class" | head -5; fi
        echo "seed=${seed:-default} $id exit=$code $line"
    done
done
exit $bad
