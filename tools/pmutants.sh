#!/bin/bash
# Parallel sensitivity run: like tools/mutants.sh, but every job works on private copies of /repo
# and /verif that are bind-mounted over /repo and /verif in a private mount namespace, so N
# mutants are built and checked at the same time and /repo itself is never touched.
# PM_VERIF_SRC=<dir>: take the checks from that copy of /verif (e.g. a development worktree) instead of /verif.
# Usage: tools/pmutants.sh [-j N] [patch ...]        (needs root: unshare -m)
J=5
SRC=${PM_VERIF_SRC:-/verif}
if [ "$1" = "-j" ]; then J=$2; shift 2; fi
cd /verif || exit 2
[ $# -gt 0 ] || set -- mutants/*.patch seeded/*/patch.diff
BASE=${PM_BASE:-/tmp/pm}
mkdir -p $BASE
list=$BASE/list.txt; : > $list
for p in "$@"; do [ -f "$p" ] && realpath "$p" | sed "s|^$SRC/|/verif/|" >> $list; done
total=$(wc -l < $list)
: > $BASE/results.txt
worker() {
    i=$1
    rsync -a --delete --exclude target /repo/ $BASE/repo$i/
    rsync -a --delete --exclude target --exclude .git $SRC/ $BASE/verif$i/
    [ -d $BASE/verif$i/target ] || cp -a /verif/target $BASE/verif$i/target
    n=0
    while read -r p; do
        n=$((n+1))
        [ $(( (n - 1) % J )) -eq $((i - 1)) ] || continue
        rel=${p#/verif/}
        pp=$BASE/verif$i/$rel
        prop=$(sed -n 's/^# property: //p' "$pp" | head -1)
        [ -n "$prop" ] || prop=$(sed -n 's/.*"property": *"\([^"]*\)".*/\1/p' "$(dirname "$pp")/meta.json" 2>/dev/null | head -1)
        out=$(unshare -m bash -c "mount --bind $BASE/repo$i /repo && mount --bind $BASE/verif$i /verif && cd /repo && git checkout -q -- . && git clean -fdq && if git apply '$BASE/verif$i/$rel' 2>/dev/null; then cd /verif && ./check.sh $prop quick 2>&1; echo EXIT=\$?; cd /repo && git checkout -q -- . && git clean -fdq; else echo SKIP-DOES-NOT-APPLY; fi")
        code=$(echo "$out" | sed -n 's/^EXIT=//p' | tail -1)
        classes=$(echo "$out" | sed -n 's/.*violation class=\([^:]*\):.*/\1/p' | sort -u | tr '\n' ' ')
        spins=$(echo "$out" | grep -c "stuck")
        nviol=$(echo "$out" | sed -n 's/.* runs=[0-9]* .* violations=\([0-9]*\) (known \([0-9]*\)).*/\1-\2/p' | tail -1)
        if echo "$out" | grep -q SKIP-DOES-NOT-APPLY; then echo "SKIP    $prop $rel (does not apply)" >> $BASE/results.txt
        elif [ "$code" = "1" ]; then echo "CAUGHT  $prop $rel  [$classes] stuck=$spins violating_runs(total-known)=$nviol" >> $BASE/results.txt
        else echo "MISSED  $prop $rel exit=$code" >> $BASE/results.txt; fi
    done < $list
}
for i in $(seq 1 $J); do worker $i & done
wait
sort -k3 $BASE/results.txt
echo "total=$total caught=$(grep -c '^CAUGHT' $BASE/results.txt) missed=$(grep -c '^MISSED' $BASE/results.txt) skipped=$(grep -c '^SKIP' $BASE/results.txt)"
grep -q '^MISSED' $BASE/results.txt && exit 1
exit 0
