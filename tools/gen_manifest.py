#!/usr/bin/env python3
"""Regenerates /verif/MANIFEST.json from the table below (kept in sync with sim/src/props)."""
import json, subprocess

CHECKS = {
 # id: (simulator, category, design_ref, text, note, technique)
 "C05": ("S-sim + R-sim", "exploration", "DESIGN.md §5 C05",
         "One run in 50: C18's scenario (abandoned reply futures). One run in 64: pipelined requests over the real TLS / SSH / local transports with several complete replies per delivery. Otherwise seeded search over schedules: the real Session runs over an in-memory transport under an executor the harness owns; every poll, spurious poll, send-progress step and reply delivery (in order or permuted) is a tape choice. Oracle over the history: message-ids distinct, every future resolves to the reply carrying its own unique tag, nothing delivered twice, no stuck task at quiescence, an unknown-id reply never becomes an Ok value.",
         "Trusted: the harness's own XML parser and executor; tokio::sync::Mutex (real, executor-agnostic). The three real transports are replaced by the in-memory Transport (they are exercised by C06/C07).",
         "deterministic simulation: seeded scheduler over real session futures, history oracle"),
 "C18": ("S-sim + R-sim", "exploration", "DESIGN.md §5 C18",
         "The C05 schedule space plus the action 'drop reply future j', enabled at every scheduler step for every future that lives in its own task (so at each of its suspension points) and 'drop without polling'; survivors must resolve to their own replies and a request issued afterwards must succeed. One run in 64 runs over the real TLS / SSH / local transports against the scripted peer: replies cut into chunks, the task awaiting one or two replies aborted between two chunks (inside the transport read if it is the reader).",
         "Same trusted base as C05. Only reply futures are dropped, not rpc() calls in progress. On the real transports drops fall between two deliveries of the peer, not between two polls.",
         "deterministic simulation: seeded scheduler with cancellation injected at suspension points"),
 "C08": ("S-sim", "exploration", "DESIGN.md §5 C08 In one run of six the send of another outstanding request reports an I/O error after its bytes went out; the server's reply to that abandoned request must not be taken for the reply to a later one.",
         "Reply documents are generated from the NETCONF/Junos reply grammar (0-4 rpc-error elements of every type/tag/severity with optional children, positive indications, load-configuration-results with consistent or inconsistent load-error-count, in every order) and delivered through the real receive path to one request of each reply type among other outstanding requests. Oracle from the generated document: Ok implies no error-severity rpc-error and the operation's positive indication; Err(RpcError(list)) implies list == the document's rpc-errors in order.",
         "Decided mainly by generated peer behaviour; the schedule varies in the delivery order of the replies and the order in which the reply futures are awaited. Trusted: the generator's own model of each rpc-error; comparison uses Display (type, severity) and Debug (tag, message, path, info) of the library's error values.",
         "deterministic simulation: generated server replies through the real session, document-derived oracle"),
 "C09": ("S-sim", "exploration", "DESIGN.md §5 C09 The url capability URI carries its scheme list alone or next to other query arguments. One request in 19 is a builder sequence that leaves a parameter out (no target, no source, ...): whatever then reaches the wire must still be licensed.",
         "The server hello advertises a seeded subset of the RFC 6241 capabilities (every url-scheme combination) and optionally the Junos capability; 1-5 requests per session cover every builder with every datastore, filter type, option value and parameter. Soundness is judged on the content found on the wire (parsed by the harness) against a table transcribed from RFC 6241 section 8; completeness on the intended content; a rejected call must leave nothing on the wire.",
         "Trusted: the requirement table in props/c09.rs (edit-config to <startup/> is treated like the library does). load-configuration from a URL cannot be constructed through the public API and is not covered.",
         "deterministic simulation: capability-set x request matrix sampled through the real builders, wire-content oracle"),
 "C10": ("S-sim + R-sim", "exploration", "DESIGN.md §5 C10 A caller-supplied payload whose serialisation fails half-way must make the call fail, send nothing and leave later messages unaffected. The failing caller-supplied payload is used with edit-config and with load-configuration. Half of the large-request runs meet 4 KiB socket buffers and a slow TLS peer.",
         "Every text-valued and fragment-valued parameter site of every operation (19 sites), alone or together with the other parameters of its operation (commit, commit-configuration, edit-config combinations), is driven with adversarial values; one run in 1500 sends a 70-260 KiB request over the real transports under back-pressure; (XML metacharacters, quotes, ']]>', the delimiter itself, entity look-alikes, comment/CDATA/PI openers, non-ASCII, empty) and generated well-formed fragments. The fake server frames the byte stream by the delimiter like a real one and parses with the harness's strict XML parser: exactly one message per rpc(), well-formed, value read back unchanged, fragments equal as subtrees.",
         "Decided by generated parameter values. The agent's own payloads (policy names, comments) are covered through A-sim in C01. Attribute-valued parameters are generated without tab/newline.",
         "deterministic simulation: adversarial parameter values through the real serialisers, strict server-side parse"),
 "C12": ("S-sim + R-sim(TLS)", "exploration", "DESIGN.md §5 C12 Enumerated over the real TLS / local / SSH transports as well: a valid hello cut at each position of its delimiter, and valid hellos of 1018-1030 and 2047-2050 bytes in one unit, must establish a usable session.",
         "Seeded: the hello matrix (base 1.0/1.1/both/neither x other capabilities x session-id variants x namespace style x XML declaration x element order x malformed hellos incl. a second <capabilities> and a foreign-namespace capability element x a write error on the client's own hello) under permuted scheduling of the simultaneous hello exchange (hello available early, or server waits for the client's hello; client send back-pressure). Oracle: established iff well-formed, valid session-id and a common base version; negotiated = highest common; reported id and capability set = the hello's; first rpc succeeds.",
         "The framing half (a conforming :base:1.1 peer uses chunked framing) needs the real transports and is run over real TLS as the enumerated part.",
         "deterministic simulation: hello matrix x exchange order; framing against a conforming peer over the real TLS transport"),
 "C13": ("S-sim", "exploration", "DESIGN.md §5 C13",
         "Metamorphic pairs: each generated hello / rpc-reply / configuration document is serialised canonically and under a seeded composition of information-preserving rewrites (8 kinds), both are parsed by the real readers; accept/reject and value must agree. A divergence is narrowed to a single rewrite site; the class (message kind, rewrite, element) identifies the finding, and a known divergence does not hide another one in the same message.",
         "Trusted: the harness serialiser (self-checked on every run: both serialisations must be the same document for the harness's own parser).",
         "deterministic simulation: metamorphic serialisation pairs through the real readers"),
 "C14": ("S-sim + R-sim", "exploration", "DESIGN.md §5 C14 The harness is built with overflow checks, so an arithmetic overflow in a reader is a panic; leaf values are also replaced by numbers up to and beyond 2^64. One run in 150: over the real transports, a hostile message (not UTF-8, not XML, cut short, empty) among 2-4 replies that arrive as one byte stream with 0-3 cuts; every call completes within 5 virtual seconds and a value is the caller's own reply.",
         "One run in 150: over the real transports the hello or a reply is cut short and the peer then goes away (C07's close kinds). Otherwise a session with 1-4 outstanding requests in separate tasks; the hello or one reply is replaced by a mutation of the valid message (20 mutation kinds incl. truncation at any offset, splices, byte flips, invalid UTF-8, huge numbers, 64 KiB / 4 MiB text, deep nesting, random bytes, one leaf text or attribute value replaced by long ASCII + multi-byte text); the mutated reply answers one of six operations (get, lock, open-, close-, load-, commit-configuration) and starts from one of that operation's valid reply shapes or a complete rpc-error, so that every reply reader is reached. Oracle: no panic, quiescence within the step budget, every other request still resolves to its own reply (at most one innocent reader may err), no poll hangs (watchdog). The same mutations are fed to the agent's two configuration readers.",
         "Mutations that name another outstanding message-id are skipped. A non-returning poll is caught by a 20 s real-time watchdog (class spin).",
         "deterministic simulation: mutated server bytes with other requests outstanding, seeded delivery order"),
 "C01": ("A-sim", "exploration", "DESIGN.md §5 C01",
         "Histories of 1-6 consecutive runs of the real agent (Updater::run) against FakeJunos + FakeIrrd on a paused tokio clock, the world mutating between runs (IRR data, annotations, activation, names, expressions); one run in four meets a NETCONF fault (success must still imply convergence) and one fault-free run in 60 is made end to end by the agent executable over real TLS / TCP. After every successful run: committed accept-set per family == reference evaluation, final reject, no stale policy, read-back of the committed state through the agent's own reader; finally one more run with unchanged inputs must succeed and change nothing.",
         "Trusted: FakeJunos's merge/delete semantics and get-config dialect (assumptions listed in evidence), the reference evaluator (rpsl + generic-ip over the database), the harness XML parser.",
         "deterministic simulation: run histories against router and IRR models, virtual time, seeded delays and hash order"),
 "C02": ("A-sim", "exploration", "DESIGN.md §5 C02 Whatever a run commits must be closed for every policy it sent a load for, also after the router refused a load and merged part of it (fault kind LoadPartial).",
         "The C01 histories with NETCONF faults at seeded request positions, so that runs abort after any prefix of the update sequence; the oracle runs on the model's working copy after every single applied load-configuration (accepting terms restricted to one family, with explicit route-filters all inside the evaluated set, final reject), on the element paths of every payload and on the set of operations and the ephemeral instance used.",
         "Same trusted base as C01.",
         "deterministic simulation: per-load invariant on the router model under injected aborts"),
 "C03": ("A-sim", "fault_enumeration", "DESIGN.md §5 C03 Managed policies whose expression uses a construct the evaluator does not support (PeerAS, AS-path regexps, attribute matches) are included.",
         "Histories biased towards unobtainable prefix data: unknown as-set, IRR error responses (F/E/D) to the members query, IRRd refusing the connection, unparseable bgpfu-fltr annotations, with the policy installed or not. Oracle: no update or delete names such a policy, its installed state is unchanged, deletes only name policies that are not marked as managed. All violations of a run are collected so that the known finding does not hide another.",
         "Same trusted base as C01; unknown route-/filter-sets are defined by bgpfu-lib as empty sets and are not faults.",
         "deterministic simulation: IRR fault kinds x candidate/installed combinations through the real agent"),
 "C04": ("A-sim", "fault_enumeration", "DESIGN.md §5 C04",
         "1-2 faults at seeded positions of open -> get-config x2 -> load x N -> commit -> close-configuration -> close-session, 14 fault kinds (rpc-error, a load that is refused but partially merged, error in load results with/without <ok/>, <ok/> followed by an error, a reply without any content, malformed, truncated, unknown id, another outstanding id, duplicate, close before/after the reply, warning+ok as a non-fault), with reply delays so that a failing load reply arrives after later loads were sent. Oracle on the server's per-session request log and delivery flags.",
         "The fake server's classification of its own replies (positive / negative / garbage) is the reference for 'acknowledged'.",
         "deterministic simulation: fault position x fault kind injection against a recording server, virtual delays"),
 "C06": ("R-sim", "fault_enumeration", "DESIGN.md §5 C06 One seeded run in ten drops the reading future between two deliveries (bytes already taken off the stream must stay with the transport). One seeded run in 25 is the outgoing direction: a 70-260 KiB request, in half of these runs over 4 KiB socket buffers to a TLS peer that reads slowly; the peer must frame every request once and complete without further traffic.",
         "Real TLS, SSH and local-CLI transports against a scripted peer on one paused-clock runtime; one chunk = one TLS record / SSH CHANNEL_DATA / pipe write, delivered in lock-step. Enumerated per transport: every single cut within 8 bytes of each delimiter, every pair of cuts inside a delimiter, all groupings of 2-3 replies, one-byte chunks, 41 reply sizes around the receive-buffer boundaries; plus seeded cut sets. Oracle: each request resolves to its own reply within 100 virtual ms of its delimiter's last byte.",
         "Relies on synchronous loopback/pipe delivery (Nagle disabled on the client socket by the harness); guarded by the standing re-execution check. Absolute virtual instants are kept out of the event log.",
         "deterministic simulation: segmentation enumeration over real transports, scripted peer, paused clock"),
 "C07": ("R-sim", "fault_enumeration", "DESIGN.md §5 C07 Job level (15 enumerated scenarios): the agent executable in daemon mode against FakeJunos on a TLS listener and FakeIrrd on loopback TCP; the router closes at request 0-4 of the run while the IRRd answers or has gone silent (evaluation still in progress); the daemon must report the failed job within 10 s of real time.",
         "Enumerated (close point x outstanding requests x close kind) per transport - TLS close_notify+FIN / FIN / RST, SSH channel EOF / close / EOF+close / TCP FIN / TCP RST, local EOF / child killed - plus seeded variants. Oracle: establishment, every pending request and one further request fail within 5 virtual seconds; a client that stops making virtual-time progress (spin inside a poll, or endless re-polling that freezes the paused clock) is caught by the worker watchdog and reported as class spin/<transport>/<close kind>.",
         "The spin watchdog reads a real clock (8 s).",
         "deterministic simulation: disconnect injection at every session phase over real transports, spin watchdog"),
 "C11": ("I-sim", "exploration", "DESIGN.md §5 C11 One database in four has 1-4 filter-sets, some holding constructs that cannot be evaluated or a literal list of 300-1200 prefixes (5-20 KB of object text); a client that keeps reading into a full buffer is reported as evaluation-spins.",
         "The real RpslEvaluator over the vendored irrc pipeline whose socket is an in-memory stream with seeded short reads and partial writes, against FakeIrrd over a generated database (nested/cyclic/hierarchical as-sets, v4-only/v6-only/routeless ASes, duplicates, nested route-sets, filter-sets; thorough: >1000 pipelined queries). One run in 40 is a C01-style history of real agent runs (router state == reference set split by family). One run in 16 evaluates through the bgpfu executable (child process) over a loopback TCP connection to FakeIrrd and compares the printed ranges. Oracle: equality with rpsl's evaluator over a resolver that reads the database directly.",
         "rpsl expression semantics and generic-ip set algebra are trusted (both sides). NOT is only generated over ANY and short IPv4 literal sets: generic-ip's complement is exponential in prefix length (seconds for a /24, unbounded for IPv6). The agent half is checked by C01.",
         "deterministic simulation: IRR protocol model with seeded segmentation, reference evaluation"),
 "C15": ("A-sim", "exploration", "DESIGN.md §5 C15 One world in eight has a policy over a 70-100 member as-set on an IRR mirror that answers every route6 query with an error (dozens of sunk errors in one evaluation).",
         "Agent runs over 1-10 managed policies of which some are unevaluable (unknown as-set, IRR error, PeerAS, AS-path regex, community match) in all (seeded) hash orders; one run in 60 is made end to end by the agent executable. Oracle: the run succeeds, evaluable policies reach their reference sets and are committed, unevaluable ones are untouched.",
         "Same trusted base as C01.",
         "deterministic simulation: unevaluable members x evaluation order through the real agent"),
 "C16": ("A-sim", "exploration", "DESIGN.md §5 C16 One run in 400 is a C01-style history of real agent runs (the reader fed through the session's reply routing, spawned tasks starting in seeded order). One configuration in eight repeats a statement name: the reader may reject the reply as a whole but must not pick one of two selected statements silently.",
         "Running configurations from a grammar (annotation present/absent/near-miss/unparseable, decorations, jcmd:active, four attribute orders incl. Junos's duplicate xmlns:jcmd, special characters in names and expressions, five body shapes) through the real candidate reader; oracle: (name, expression) set == an independent selection over the generated description.",
         "Decided by generated peer output, not by schedule or faults (see DESIGN.md §6): the simulator contributes the router model that renders the documents.",
         "generated router configurations through the real reader vs independent selection"),
 "C17": ("I-sim", "exploration", "DESIGN.md §5 C17 One run in eight is a long history: 12-48 (thorough 12-101) evaluations on one evaluator from a small pool over a database whose filter-sets may hold unevaluable constructs (the evaluation unwinds, as under the agent's catch_unwind) or very long prefix lists.",
         "2-10 expressions evaluated in sequence on one evaluator (one pipelined connection) with 0-3 IRR error responses injected at seeded query ordinals, multi-object filter-set responses (partly consumed), seeded read segmentation. Oracle: every evaluation whose own queries were not faulted equals the fresh-connection reference, in particular after a faulted one.",
         "Same trusted base as C11.",
         "deterministic simulation: evaluation histories with injected IRR errors on one connection"),
 "C19": ("A-sim", "exploration", "DESIGN.md §5 C19 One plan in 12 is a long outage: 34-80 consecutive failing attempts without SIGHUP (months of virtual time).",
         "The real Loop::start on a paused clock (periods 1 s .. 1 day), scripted outcomes per connection attempt (success / connect failure / rpc-error or disconnect at a seeded request / the job panics, job durations 0..3 periods), SIGHUP and SIGINT/SIGTERM raised with libc::raise at seeded virtual instants. Oracle over the timeline of attempts and observed job ends: period after success, 60 s first retry, monotone growth up to max(60 s, period), never zero without SIGHUP, SIGHUP while waiting => run at that instant, terminating signal while waiting => clean exit at that instant. Enumerated part: the agent executable as a child process (real clock, real signals, closed port): -f 0 makes one attempt and exits with failure, a daemon announces 60 s first and then non-shrinking delays bounded by max(60 s, period) for jobs started by SIGHUP, and exits 0 on SIGTERM / SIGINT.",
         "Job end is observed at the transport (refusal, first negative reply / EOF, positive close-session reply).",
         "deterministic simulation: virtual-time timelines with scripted outcomes and real signals"),
 "C20": ("R-sim", "exploration", "DESIGN.md §5 C20",
         "Real SSH and TLS session establishment (success, rejected credentials, peer closes) under a capturing tracing subscriber with span new/close events, 8 filter directives, 11 passwords (incl. entirely non-ASCII ones); the captured text of the repository's crates is searched for the secret in clear, Debug-escaped, hex, base64 and byte-list encodings (key: DER, private scalar and its halves, PEM lines). Three runs in seven start the agent executable (the repository's bin source) as a child process at -qq..-vvv against a closed port with a client key file that met one of 19 storage faults (torn write, lost / converted line ends, flipped bit, swapped files ...) and search everything it writes.",
         "The agent executable's successful TLS path is exercised in-process only. Dependency log lines are scanned and reported as observations.",
         "simulated connection attempts over real transports and of the agent executable with injected key-file storage faults, full log capture and multi-encoding search"),
}

def main():
    props = [json.loads(l) for l in open('/verif/properties.jsonl')]
    commits = subprocess.run(['git','-C','/repo','log','--format=%h %s'],capture_output=True,text=True).stdout.splitlines()
    hooks = [c.split()[0] for c in commits if c.split(' ',1)[1].startswith('verif hooks')]
    checks = []
    for pid,(sim,cat,ref,text,note,tech) in CHECKS.items():
        checks.append({
            "property_id": pid,
            "quick_cmd": f"./check.sh {pid} quick",
            "thorough_cmd": f"./check.sh {pid} thorough",
            "evidence_file": f"/verif/evidence/{pid}.json",
            "replay_cmd_template": "./check.sh replay {path}",
            "engine": sim,
            "level_claimed": {"category": cat, "text": text, "design_ref": ref},
            "level_note": note,
            "technique": tech,
        })
    na = [{"property_id": p["id"], "reason": "check under construction (not yet registered)"} for p in props if p["id"] not in CHECKS]
    checks.sort(key=lambda c: c["property_id"])
    engines = {}
    for pid,(sim,*_) in CHECKS.items():
        engines.setdefault(sim, []).append(pid)
    kinds = {"S-sim":"session-level simulator: own seeded executor + in-memory Transport, real netconf::Session",
             "A-sim":"agent-level simulator: real agent on tokio current_thread with paused clock, FakeJunos + FakeIrrd",
             "I-sim":"evaluator-level simulator: real RpslEvaluator over vendored irrc with an in-memory stream",
             "R-sim":"transport-level simulator: real TLS/SSH/child-process transports against a scripted peer on one paused runtime"}
    m = {"version": 1,
         "setup_cmd": "cd /verif && mkdir -p target && cargo build --release --offline 2>&1 | tail -n 3",
         "hooks": {"guard": "cargo feature `verif` on bgpfu-netconf and bgpfu-junos-agent (off by default, not part of any default feature)",
                   "enable": "/verif/sim depends on /repo/netconf (path dependency, features [junos, tls, ssh, verif]) and, through the shadow manifest /verif/shadow/junos-agent ([lib] path=/repo/junos-agent/src/lib.rs, tokio -> /verif/shim/tokio), on the agent with feature verif; every check runs `cargo build --release --offline` in /verif first, which recompiles /repo's working tree",
                   "baseline_off_cmd": "cd /repo && cargo test --workspace --no-fail-fast --offline",
                   "source_commits": hooks[::-1], "add_only": True},
         "engines": [{"name": k, "path": "/verif/sim", "serves_properties": v, "kind_free_text": kinds.get(k, " + ".join(kinds.get(x.strip().split("(")[0], x) for x in k.split("+")))} for k,v in engines.items()],
         "checks": checks,
         "not_applicable": na,
         "notes": "All checks: ./check.sh <ID> quick|thorough; replay: ./check.sh replay <file>; known findings: /verif/known_findings.json; design: /verif/DESIGN.md"}
    json.dump(m, open('/verif/MANIFEST.json','w'), indent=1)
    print(len(checks), "checks,", len(na), "not yet registered")

main()
