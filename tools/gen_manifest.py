#!/usr/bin/env python3
"""Regenerates /verif/MANIFEST.json from the table below (kept in sync with sim/src/props)."""
import json, subprocess

CHECKS = {
 # id: (simulator, category, design_ref, text, note, technique)
 "C05": ("S-sim", "exploration", "DESIGN.md §5 C05",
         "Seeded search over schedules: the real Session runs over an in-memory transport under an executor the harness owns; every poll, spurious poll, send-progress step and reply delivery (in order or permuted) is a tape choice. Oracle over the history: message-ids distinct, every future resolves to the reply carrying its own unique tag, nothing delivered twice, no stuck task at quiescence, an unknown-id reply never becomes an Ok value.",
         "Trusted: the harness's own XML parser and executor; tokio::sync::Mutex (real, executor-agnostic). The three real transports are replaced by the in-memory Transport (they are exercised by C06/C07).",
         "deterministic simulation: seeded scheduler over real session futures, history oracle"),
 "C18": ("S-sim", "exploration", "DESIGN.md §5 C18",
         "The C05 schedule space plus the action 'drop reply future j', enabled at every scheduler step for every future that lives in its own task (so at each of its suspension points) and 'drop without polling'; survivors must resolve to their own replies and a request issued afterwards must succeed.",
         "Same trusted base as C05. Only reply futures are dropped, not rpc() calls in progress.",
         "deterministic simulation: seeded scheduler with cancellation injected at suspension points"),
}

def main():
    props = [json.loads(l) for l in open('/verif/properties.jsonl')]
    commits = subprocess.run(['git','-C','/repo','log','--format=%h %s'],capture_output=True,text=True).stdout.splitlines()
    hooks = [c.split()[0] for c in commits if c.split(' ',1)[1].startswith('verif hooks')]
    checks = []
    for pid,(sim,cat,ref,text,note,tech) in CHECKS.items():
        checks.append({
            "property_id": pid,
            "quick_cmd": f"./check.sh {pid} quick",
            "thorough_cmd": f"./check.sh {pid} thorough",
            "evidence_file": f"/verif/evidence/{pid}.json",
            "replay_cmd_template": "./check.sh replay {path}",
            "engine": sim,
            "level_claimed": {"category": cat, "text": text, "design_ref": ref},
            "level_note": note,
            "technique": tech,
        })
    na = [{"property_id": p["id"], "reason": "check under construction in this session (not yet registered)"} for p in props if p["id"] not in CHECKS]
    engines = {}
    for pid,(sim,*_) in CHECKS.items():
        engines.setdefault(sim, []).append(pid)
    kinds = {"S-sim":"session-level simulator: own seeded executor + in-memory Transport, real netconf::Session",
             "A-sim":"agent-level simulator: real agent on tokio current_thread with paused clock, FakeJunos + FakeIrrd",
             "I-sim":"evaluator-level simulator: real RpslEvaluator over vendored irrc with an in-memory stream",
             "R-sim":"transport-level simulator: real TLS/SSH/child-process transports against a scripted peer on one paused runtime"}
    m = {"version": 1,
         "setup_cmd": "cd /verif && mkdir -p target && cargo build --release --offline 2>&1 | tail -n 3",
         "hooks": {"guard": "cargo feature `verif` on bgpfu-netconf and bgpfu-junos-agent (off by default, not part of any default feature)",
                   "enable": "/verif/sim depends on /repo/netconf (path dependency, features [junos, tls, ssh, verif]) and, through the shadow manifest /verif/shadow/junos-agent ([lib] path=/repo/junos-agent/src/lib.rs, tokio -> /verif/shim/tokio), on the agent with feature verif; every check runs `cargo build --release --offline` in /verif first, which recompiles /repo's working tree",
                   "baseline_off_cmd": "cd /repo && cargo test --workspace --no-fail-fast --offline",
                   "source_commits": hooks[::-1], "add_only": True},
         "engines": [{"name": k, "path": "/verif/sim", "serves_properties": v, "kind_free_text": kinds[k]} for k,v in engines.items()],
         "checks": checks,
         "not_applicable": na,
         "notes": "All checks: ./check.sh <ID> quick|thorough; replay: ./check.sh replay <file>; known findings: /verif/known_findings.json; design: /verif/DESIGN.md"}
    json.dump(m, open('/verif/MANIFEST.json','w'), indent=1)
    print(len(checks), "checks,", len(na), "not yet registered")

main()
