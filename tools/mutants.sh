#!/bin/sh
# Sensitivity run: apply each patch of /verif/mutants (or the ones given) to /repo, run the quick
# check of the property named in its "# property:" header, expect exit 1, undo the patch.
# Usage: tools/mutants.sh [patch ...]      (never leaves /repo modified)
cd /verif || exit 2
if [ -n "$(git -C /repo status --porcelain)" ]; then echo "/repo is not clean"; exit 2; fi
[ $# -gt 0 ] || set -- mutants/*.patch seeded/*/patch.diff
fail=0
for p in "$@"; do
    [ -f "$p" ] || continue
    prop=$(sed -n 's/^# property: //p' "$p" | head -1)
    [ -n "$prop" ] || prop=$(sed -n 's/.*"property": *"\([^"]*\)".*/\1/p' "$(dirname "$p")/meta.json" 2>/dev/null | head -1)
    abs=$(realpath "$p")
    if ! git -C /repo apply "$abs" 2>/dev/null; then echo "SKIP $p (does not apply)"; continue; fi
    out=$(./check.sh "$prop" quick 2>&1); code=$?
    git -C /repo checkout -- . ; git -C /repo clean -fdq
    classes=$(echo "$out" | sed -n 's/.*violation class=\([^:]*\):.*/\1/p' | sort -u | tr '\n' ' ')
    spins=$(echo "$out" | grep -c "stuck")
    if [ $code -eq 1 ]; then echo "CAUGHT  $prop $p  [$classes] stuck=$spins"; else echo "MISSED  $prop $p exit=$code"; fail=1; fi
done
./check.sh list >/dev/null 2>&1   # rebuild on the clean tree
exit $fail
