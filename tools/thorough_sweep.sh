#!/bin/sh
# Runs every thorough tier once, keeps each evidence file as evidence/thorough/<ID>.json, then
# restores the quick-tier evidence. Usage: tools/thorough_sweep.sh [ID ...]
cd /verif || exit 2
[ $# -gt 0 ] || set -- C01 C02 C03 C04 C05 C06 C07 C08 C09 C10 C11 C12 C13 C14 C15 C16 C17 C18 C19 C20
mkdir -p evidence/thorough
bad=0
for id in "$@"; do
    start=$(date +%s)
    ./check.sh "$id" thorough > /tmp/thorough.$id.log 2>&1; code=$?
    end=$(date +%s)
    cp evidence/$id.json evidence/thorough/$id.json
    echo "$id thorough exit=$code wall=$((end-start))s $(grep -E '^\[C[0-9]+\] runs=' /tmp/thorough.$id.log | tail -1)"
    grep -E "^VIOLATION|stuck|harness" /tmp/thorough.$id.log | head -5
    [ $code -eq 0 ] || bad=1
done
for id in "$@"; do ./check.sh "$id" quick >/dev/null 2>&1; done
exit $bad
