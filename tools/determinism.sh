#!/bin/sh
# Determinism sweep: every check's quick batch is executed with 16 and with 4 worker processes (and,
# with a second argument, under another VERIF_SEED); the order-independent digest of all event-log
# hashes must be identical for equal seeds. Each batch additionally re-executes every 97th run in a
# second worker (built into the driver). Usage: tools/determinism.sh [ID ...]
cd /verif || exit 2
[ $# -gt 0 ] || set -- C01 C02 C03 C04 C05 C06 C07 C08 C09 C10 C11 C12 C13 C14 C15 C16 C17 C18 C19 C20
bad=0
for id in "$@"; do
    for seed in 20260926 7; do
        d=""
        for jobs in 16 4; do
            VERIF_SEED=$seed VERIF_JOBS=$jobs ./check.sh "$id" quick >/tmp/det.$id.log 2>&1; code=$?
            x=$(python3 -c "import json;d=json.load(open('/verif/evidence/$id.json'));print(d['coverage']['event_log_digest'], d['coverage']['evaluations'])")
            [ $code -eq 0 ] || { echo "$id seed=$seed jobs=$jobs exit=$code"; bad=1; }
            if [ -z "$d" ]; then d="$x"; elif [ "$d" != "$x" ]; then echo "DIVERGENCE $id seed=$seed: jobs=16 -> $d ; jobs=4 -> $x"; bad=1; fi
        done
        echo "$id seed=$seed digest/evaluations = $d"
    done
done
# leave the committed default-seed evidence in place
for id in "$@"; do ./check.sh "$id" quick >/dev/null 2>&1; done
exit $bad
