#!/usr/bin/env python3
# Fill seeded/<round>-*/meta.json "detected_by" from a baseline results file (checks as they were when
# the change arrived) and a current results file (tools/pmutants.sh output).
# Usage: tools/fill_detected.py <round prefix, e.g. r7> <baseline results> <current results> [notes.json]
import json, sys, glob, os, re
rnd, base, cur = sys.argv[1:4]
notes = json.load(open(sys.argv[4])) if len(sys.argv) > 4 else {}
def load(path):
    out = {}
    for l in open(path):
        m = re.match(r'(CAUGHT|MISSED|SKIP)\s+(\S+)\s+(\S+)\s*(.*)', l)
        if m:
            out[os.path.basename(os.path.dirname(m.group(3)))] = (m.group(1), m.group(4).strip())
    return out
b, c = load(base), load(cur)
for meta in sorted(glob.glob(f'/verif/seeded/{rnd}-*/meta.json')):
    name = os.path.basename(os.path.dirname(meta))
    m = json.load(open(meta))
    def classes(t):
        return t.split('[', 1)[1].split(']')[0].strip() if '[' in t else t
    if name not in c or c[name][0] != 'CAUGHT':
        print("not caught now:", name, c.get(name)); continue
    now = "quick tier: " + classes(c[name][1])
    if b.get(name, ("CAUGHT",))[0] == 'CAUGHT':
        m['detected_by'] = now
    else:
        m['detected_by'] = "MISSED by the checks as they were when it arrived" + (": " + notes[name] if name in notes else "") + "; after strengthening: " + now
    m['what_i_ran'] = "tools/confirm_seeded.sh in the scratch worktree, then tools/pmutants.sh (private bind-mounted copies of /repo and /verif) on " + f"seeded/{name}/patch.diff"
    json.dump(m, open(meta, 'w'), indent=1)
    print("filled", name)
