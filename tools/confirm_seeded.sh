#!/bin/sh
# Independent confirmation of a seeded change in its scratch worktree /tmp/wt/<ID>:
#   demo passes without the patch, fails with it; the repository's own suite passes with it.
# Usage: tools/confirm_seeded.sh <ID> <demo test command...>
id=$1; shift
wt=/tmp/wt/$id; out=/tmp/wt/$id-out
cd "$wt" || exit 2
export CARGO_NET_OFFLINE=true
git checkout -q -- . && git clean -fdq -e target
install_demo() {
    (cd "$out/demo" && find . -type f ! -name HOWTO.txt ! -name '*.diff' | while read -r f; do mkdir -p "$wt/$(dirname "$f")"; cp "$f" "$wt/$f"; done)
    for d in "$out"/demo/*.diff; do [ -f "$d" ] && git apply "$d"; done
    return 0
}
install_demo
echo "--- demo WITHOUT patch: $*"
"$@" > /tmp/confirm-$id-without.log 2>&1; a=$?
git apply "$out/patch.diff" || { echo "patch does not apply"; exit 2; }
echo "--- demo WITH patch"
"$@" > /tmp/confirm-$id-with.log 2>&1; b=$?
# the repository's own suite with only the patch
git checkout -q -- . && git clean -fdq -e target && git apply "$out/patch.diff"
cargo test --workspace --no-fail-fast --offline > /tmp/confirm-$id-suite.log 2>&1; c=$?
passed=$(grep -E "^test result" /tmp/confirm-$id-suite.log | awk '{p+=$4; f+=$6} END {print p" passed "f" failed"}')
git checkout -q -- . && git clean -fdq -e target
echo "RESULT $id demo_without_patch_exit=$a demo_with_patch_exit=$b suite_with_patch_exit=$c ($passed)"
if [ $a -eq 0 ] && [ $b -ne 0 ] && [ $c -eq 0 ]; then echo "CONFIRMED $id"; else echo "NOT-CONFIRMED $id"; fi
