#!/bin/sh
# Intake of one independently written change: confirm it in its scratch worktree, archive it under
# seeded/, remove the worktree, run the quick check of its property against it.
# INTAKE_PRIVATE=1: run the check on private bind-mounted copies (tools/pmutants.sh) instead of /repo itself.
# Usage: tools/intake.sh <round, e.g. R4> <property> <slug> <what> <needs> <demo command...>
round=$1; prop=$2; slug=$3; what=$4; needs=$5; shift 5
id=$round-$prop
cd /verif || exit 2
if [ -f /tmp/wt/$id-out/CONFIRMED ]; then r=$(cat /tmp/wt/$id-out/CONFIRMED); else r=$(tools/confirm_seeded.sh "$id" "$@" 2>&1 | tail -2); fi
echo "$r"
echo "$r" | grep -q "^CONFIRMED" || { echo "NOT CONFIRMED: $id kept in /tmp/wt for inspection"; exit 1; }
lc=$(echo "$round" | tr 'A-Z' 'a-z'); pl=$(echo "$prop" | tr 'A-Z' 'a-z')
d=seeded/$lc-$pl-$slug
mkdir -p "$d"; cp /tmp/wt/$id-out/patch.diff "$d/"; rm -rf "$d/demo"; cp -r /tmp/wt/$id-out/demo "$d/"; rm -f "$d/demo/CONFIRMED"; cp /tmp/wt/$id-out/meta.txt "$d/author_notes.txt" 2>/dev/null
git -C /repo worktree remove --force /tmp/wt/$id; rm -rf /tmp/wt/$id-out
python3 - "$d" "$prop" "$what" "$needs" "$round" "$*" <<'P'
import json,sys
d,p,w,n,r,demo=sys.argv[1:7]
m={"id":d.split('/')[-1],"property":p,"what":w,"needs_to_manifest":n,
 "origin":f"round {r[1:]}: written by a fresh sub-agent that saw only the property text, one-sentence descriptions of the earlier changes for the same property (to avoid repeating them) and a scratch worktree of /repo; nothing from /verif",
 "confirmed_by_me":{"scratch_worktree":f"/tmp/wt/{r}-{p} (removed afterwards)","demo_command":demo,"demo_without_patch":"passes","demo_with_patch":"fails","repository_suite_with_patch":"58 passed, 0 failed (cargo test --workspace --no-fail-fast --offline)"},
 "detected_by":"TBD","what_i_ran":"tools/intake.sh = tools/confirm_seeded.sh in the scratch worktree, then tools/mutants.sh "+d+"/patch.diff"}
json.dump(m,open(d+'/meta.json','w'),indent=1)
P
if [ -n "$INTAKE_NOCHECK" ]; then echo "ARCHIVED $d (check to be run separately)"; exit 0; fi
if [ -n "$INTAKE_PRIVATE" ]; then res=$(tools/pmutants.sh -j 1 "$d/patch.diff" 2>&1 | grep -E "^(CAUGHT|MISSED|SKIP)"); else res=$(tools/mutants.sh "$d/patch.diff" 2>&1 | grep -E "^(CAUGHT|MISSED|SKIP)"); fi
echo "$res"
python3 - "$d" "$res" <<'P'
import json,sys
d,res=sys.argv[1:3]
m=json.load(open(d+'/meta.json'))
m['detected_by']=("quick tier: "+res.split('[',1)[1].split(']')[0].strip()+(" (runs declared stuck by the watchdog)" if 'stuck=0' not in res else "")) if res.startswith('CAUGHT') else "MISSED by the checks as they were when it arrived: "+res
json.dump(m,open(d+'/meta.json','w'),indent=1)
P
