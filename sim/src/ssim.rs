//! S-sim: session-level simulator.
//!
//! The real `netconf::Session` (session.rs, message/**, capabilities.rs, builders, readers) runs
//! over an in-memory `Transport`. A hand-written executor polls the real futures; at every step
//! it lists the enabled actions (poll a woken task, poll a task spuriously, let a stalled send
//! progress, deliver one of the replies the server has produced, drop a task) and takes one via
//! the choice tape. No tokio runtime is entered: tokio's `sync::Mutex` is executor-agnostic.

use std::collections::VecDeque;
use std::future::Future;
use std::pin::Pin;
use std::sync::{Arc, Mutex};
use std::task::{Context, Poll, Wake, Waker};

use async_trait::async_trait;
use bytes::Bytes;
use netconf::transport::{RecvHandle, SendHandle, Transport};
use netconf::Error;

use crate::core::{beat, Ctx};

pub const MARKER: &str = "]]>]]>";

/// The peer. It sees complete client messages (framed by the end-of-message delimiter, like a
/// real server would) and produces zero or more messages to be delivered later.
pub trait Server: Send {
    /// called once with every complete client message (delimiter stripped)
    fn on_message(&mut self, msg: &str) -> Vec<Vec<u8>>;
}

pub struct Net {
    /// bytes written by the client that the server has not yet framed
    inbuf: Vec<u8>,
    /// complete client messages in arrival order (delimiter stripped)
    pub received: Vec<String>,
    /// number of delimiter-terminated chunks; trailing garbage is kept in inbuf
    pub server: Box<dyn Server>,
    /// produced by the server, not yet delivered to the client
    pub held: VecDeque<Vec<u8>>,
    /// delivered, not yet read by the client
    rx: VecDeque<Bytes>,
    rx_waker: Option<Waker>,
    /// a send in progress: (data, remaining stall steps, waker)
    pending_send: Option<(Bytes, usize, Option<Waker>)>,
    /// stall steps for the next sends (front = next send)
    pub send_stalls: VecDeque<usize>,
    /// per send (front = next send): what happens AFTER the bytes were handed to the peer -
    /// 0 = nothing, n > 0 = the send stays pending for n more steps ("flush pending"),
    /// usize::MAX = the send reports an I/O error although the bytes went out,
    /// usize::MAX - 1 = the send fails at once and nothing goes out
    pub send_after: VecDeque<usize>,
    /// the transport reports a closed connection on recv once rx is drained
    pub closed: bool,
    pub sends: usize,
    pub recvs: usize,
    /// message-id attribute (as a plain string search sees it) of every message the client read
    pub recv_log: Vec<String>,
}

pub type Shared = Arc<Mutex<Net>>;

impl Net {
    pub fn new(server: Box<dyn Server>) -> Shared {
        Arc::new(Mutex::new(Self {
            inbuf: Vec::new(),
            received: Vec::new(),
            server,
            held: VecDeque::new(),
            rx: VecDeque::new(),
            rx_waker: None,
            pending_send: None,
            send_stalls: VecDeque::new(),
            send_after: VecDeque::new(),
            closed: false,
            sends: 0,
            recvs: 0,
            recv_log: Vec::new(),
        }))
    }
    fn to_server(&mut self, data: &[u8]) {
        self.inbuf.extend_from_slice(data);
        loop {
            let Some(pos) = find(&self.inbuf, MARKER.as_bytes()) else { break };
            let msg: Vec<u8> = self.inbuf.drain(..pos + MARKER.len()).collect();
            let msg = String::from_utf8_lossy(&msg[..pos]).into_owned();
            let replies = self.server.on_message(&msg);
            self.received.push(msg);
            self.held.extend(replies);
        }
    }
    pub fn unframed_len(&self) -> usize {
        self.inbuf.len()
    }
    pub fn deliver(&mut self, i: usize) -> Option<Vec<u8>> {
        let m = self.held.remove(i)?;
        self.rx.push_back(Bytes::from(m.clone()));
        if let Some(w) = self.rx_waker.take() {
            w.wake();
        }
        Some(m)
    }
    pub fn push_held(&mut self, m: Vec<u8>) {
        self.held.push_back(m);
    }
    pub fn close(&mut self) {
        self.closed = true;
        if let Some(w) = self.rx_waker.take() {
            w.wake();
        }
    }
}

pub fn find(h: &[u8], n: &[u8]) -> Option<usize> {
    h.windows(n.len()).position(|w| w == n)
}

pub struct SimTransport(pub Shared);

pub struct Tx(Shared);
pub struct Rx(Shared);

impl std::fmt::Debug for Tx {
    fn fmt(&self, f: &mut std::fmt::Formatter<'_>) -> std::fmt::Result {
        f.write_str("SimTx")
    }
}
impl std::fmt::Debug for Rx {
    fn fmt(&self, f: &mut std::fmt::Formatter<'_>) -> std::fmt::Result {
        f.write_str("SimRx")
    }
}

impl Transport for SimTransport {
    type SendHandle = Tx;
    type RecvHandle = Rx;
    fn split(self) -> (Tx, Rx) {
        (Tx(self.0.clone()), Rx(self.0))
    }
}

struct SendFut {
    net: Shared,
    data: Option<Bytes>,
    queued: bool,
}

impl Future for SendFut {
    type Output = Result<(), Error>;
    fn poll(mut self: Pin<&mut Self>, cx: &mut Context<'_>) -> Poll<Self::Output> {
        let net = self.net.clone();
        let mut n = net.lock().unwrap();
        if !self.queued {
            let d = self.data.take().expect("polled after completion");
            n.sends += 1;
            let stall = n.send_stalls.pop_front().unwrap_or(0);
            let after = n.send_after.pop_front().unwrap_or(0);
            if after == usize::MAX - 1 {
                // the write fails before anything reaches the peer
                return Poll::Ready(Err(Error::Transport(std::io::Error::new(std::io::ErrorKind::BrokenPipe, "simulated write error, nothing sent"))));
            }
            if stall > 0 {
                // (a send that is stalled before its bytes go out completes normally afterwards)
                n.pending_send = Some((d, stall, Some(cx.waker().clone())));
                self.queued = true;
                return Poll::Pending;
            }
            n.to_server(&d);
            match after {
                0 => return Poll::Ready(Ok(())),
                usize::MAX => return Poll::Ready(Err(Error::Transport(std::io::Error::new(std::io::ErrorKind::BrokenPipe, "simulated write error after the bytes went out")))),
                after => {
                    // the bytes are out, the flush is not: an empty pending send keeps the future pending
                    n.pending_send = Some((Bytes::new(), after, Some(cx.waker().clone())));
                    self.queued = true;
                    return Poll::Pending;
                }
            }
        }
        match n.pending_send.as_mut() {
            Some(p) => {
                p.2 = Some(cx.waker().clone());
                Poll::Pending
            }
            None => Poll::Ready(Ok(())),
        }
    }
}

#[async_trait]
impl SendHandle for Tx {
    async fn send(&mut self, data: Bytes) -> Result<(), Error> {
        SendFut { net: self.0.clone(), data: Some(data), queued: false }.await
    }
}

struct RecvFut {
    net: Shared,
}

impl Future for RecvFut {
    type Output = Result<Bytes, Error>;
    fn poll(self: Pin<&mut Self>, cx: &mut Context<'_>) -> Poll<Self::Output> {
        let mut n = self.net.lock().unwrap();
        if let Some(m) = n.rx.pop_front() {
            n.recvs += 1;
            let id = std::str::from_utf8(&m)
                .ok()
                .and_then(|s| s.split("message-id=\"").nth(1))
                .and_then(|s| s.split('"').next())
                .unwrap_or("?")
                .to_string();
            n.recv_log.push(id);
            Poll::Ready(Ok(m))
        } else if n.closed {
            Poll::Ready(Err(Error::Transport(std::io::Error::new(std::io::ErrorKind::UnexpectedEof, "simulated connection closed"))))
        } else {
            n.rx_waker = Some(cx.waker().clone());
            Poll::Pending
        }
    }
}

#[async_trait]
impl RecvHandle for Rx {
    async fn recv(&mut self) -> Result<Bytes, Error> {
        RecvFut { net: self.0.clone() }.await
    }
}

// ---------------------------------------------------------------------------------------------
// executor
// ---------------------------------------------------------------------------------------------

struct Flag(Mutex<bool>);
impl Wake for Flag {
    fn wake(self: Arc<Self>) {
        *self.0.lock().unwrap() = true;
    }
}

pub type BoxFut = Pin<Box<dyn Future<Output = ()> + Send>>;

struct Task {
    fut: Option<BoxFut>,
    flag: Arc<Flag>,
    name: String,
    droppable: bool,
    polls: usize,
    dropped: bool,
}

/// tasks spawned from inside other tasks
#[derive(Clone, Default)]
pub struct Spawner(Arc<Mutex<Vec<(String, bool, BoxFut)>>>);

impl Spawner {
    pub fn spawn(&self, name: impl Into<String>, droppable: bool, f: impl Future<Output = ()> + Send + 'static) {
        self.0.lock().unwrap().push((name.into(), droppable, Box::pin(f)));
    }
}

pub struct SchedCfg {
    /// replies may be delivered in any order (else oldest first)
    pub permute: bool,
    /// weight of polling a task that was not woken (0 = never)
    pub spurious: usize,
    /// how many droppable tasks may be dropped in this run
    pub max_drops: usize,
    /// relative weight of the drop action
    pub drop_weight: usize,
    pub max_steps: usize,
}

impl Default for SchedCfg {
    fn default() -> Self {
        Self { permute: false, spurious: 0, max_drops: 0, drop_weight: 0, max_steps: 20_000 }
    }
}

pub struct Exec {
    tasks: Vec<Task>,
    pub net: Shared,
    pub spawner: Spawner,
    pub cfg: SchedCfg,
    pub drops_done: Vec<String>,
    pub steps: usize,
    /// a reply was delivered while at least this many replies were still held or requests outstanding
    pub max_held: usize,
    /// (task name, message-id read) for every message a task took off the transport
    pub reads: Vec<(String, String)>,
    /// (task name, panic message) of every task whose poll panicked
    pub panics: Vec<(String, String)>,
}

#[derive(Debug, PartialEq, Eq)]
pub enum Quiescence {
    /// no action enabled; names of tasks still alive
    Quiet(Vec<String>),
    StepBudget,
}

fn head(m: &[u8]) -> String {
    let s = String::from_utf8_lossy(&m[..m.len().min(72)]).into_owned();
    s.replace('\n', " ")
}

impl Exec {
    pub fn new(net: Shared, cfg: SchedCfg) -> Self {
        Self { tasks: Vec::new(), net, spawner: Spawner::default(), cfg, drops_done: Vec::new(), steps: 0, max_held: 0, reads: Vec::new(), panics: Vec::new() }
    }
    pub fn spawn(&mut self, name: impl Into<String>, droppable: bool, f: impl Future<Output = ()> + Send + 'static) {
        self.tasks.push(Task { fut: Some(Box::pin(f)), flag: Arc::new(Flag(Mutex::new(true))), name: name.into(), droppable, polls: 0, dropped: false });
    }
    fn adopt(&mut self) {
        let new: Vec<_> = self.spawner.0.lock().unwrap().drain(..).collect();
        for (name, droppable, fut) in new {
            self.tasks.push(Task { fut: Some(fut), flag: Arc::new(Flag(Mutex::new(true))), name, droppable, polls: 0, dropped: false });
        }
    }
    pub fn alive(&self) -> Vec<String> {
        self.tasks.iter().filter(|t| t.fut.is_some()).map(|t| t.name.clone()).collect()
    }
    /// Run until no action is enabled (or the step budget is exhausted).
    pub fn run(&mut self, ctx: &mut Ctx) -> Quiescence {
        loop {
            self.adopt();
            if self.steps >= self.cfg.max_steps {
                return Quiescence::StepBudget;
            }
            // enabled actions: (weight, kind, index)
            let mut acts: Vec<(usize, u8, usize)> = Vec::new();
            for (i, t) in self.tasks.iter().enumerate() {
                if t.fut.is_some() {
                    if *t.flag.0.lock().unwrap() {
                        acts.push((8, 0, i));
                    } else if self.cfg.spurious > 0 {
                        acts.push((self.cfg.spurious, 1, i));
                    }
                }
            }
            {
                let n = self.net.lock().unwrap();
                if self.cfg.permute {
                    for i in 0..n.held.len() {
                        acts.push((6, 2, i));
                    }
                } else if !n.held.is_empty() {
                    acts.push((6, 2, 0));
                }
                if n.pending_send.is_some() {
                    acts.push((6, 3, 0));
                }
            }
            if self.drops_done.len() < self.cfg.max_drops && self.cfg.drop_weight > 0 {
                for (i, t) in self.tasks.iter().enumerate() {
                    if t.fut.is_some() && t.droppable {
                        acts.push((self.cfg.drop_weight, 4, i));
                    }
                }
            }
            // only spurious polls / drops left: quiescent (they cannot make progress by themselves)
            if !acts.iter().any(|a| matches!(a.1, 0 | 2 | 3)) {
                return Quiescence::Quiet(self.alive());
            }
            let total: usize = acts.iter().map(|a| a.0).sum();
            let mut v = ctx.pick(total);
            let mut chosen = acts[acts.len() - 1];
            for a in &acts {
                if v < a.0 {
                    chosen = *a;
                    break;
                }
                v -= a.0;
            }
            self.steps += 1;
            beat();
            match chosen.1 {
                0 | 1 => {
                    let t = &mut self.tasks[chosen.2];
                    *t.flag.0.lock().unwrap() = false;
                    let w = Waker::from(t.flag.clone());
                    let mut cx = Context::from_waker(&w);
                    t.polls += 1;
                    let before = self.net.lock().unwrap().recv_log.len();
                    let fut = t.fut.as_mut().unwrap();
                    let r = match std::panic::catch_unwind(std::panic::AssertUnwindSafe(|| fut.as_mut().poll(&mut cx))) {
                        Ok(r) => r,
                        Err(p) => {
                            let msg = p
                                .downcast_ref::<String>()
                                .cloned()
                                .or_else(|| p.downcast_ref::<&str>().map(|s| (*s).to_string()))
                                .unwrap_or_else(|| "panic".into());
                            self.panics.push((t.name.clone(), msg));
                            Poll::Ready(())
                        }
                    };
                    let new_reads: Vec<String> = self.net.lock().unwrap().recv_log[before..].to_vec();
                    let done = r.is_ready();
                    if done {
                        t.fut = None;
                    }
                    let name = t.name.clone();
                    if chosen.1 == 1 {
                        ctx.count("sched.spurious_poll");
                    }
                    crate::ev!(ctx, "{} {}{}", if chosen.1 == 0 { "poll" } else { "spurious-poll" }, name, if done { " -> done" } else { "" });
                    for id in new_reads {
                        crate::ev!(ctx, "  {} took message id={} off the transport", name, id);
                        self.reads.push((name.clone(), id));
                    }
                }
                2 => {
                    let mut n = self.net.lock().unwrap();
                    let outstanding = n.held.len();
                    self.max_held = self.max_held.max(outstanding);
                    if chosen.2 > 0 {
                        ctx.count("net.reply_reordered");
                    }
                    let m = n.deliver(chosen.2).unwrap();
                    drop(n);
                    crate::ev!(ctx, "deliver[{}] {}", chosen.2, head(&m));
                }
                3 => {
                    let mut n = self.net.lock().unwrap();
                    let (d, stall, w) = n.pending_send.take().unwrap();
                    ctx.count("net.send_backpressure_step");
                    if stall > 1 {
                        n.pending_send = Some((d, stall - 1, w));
                        drop(n);
                        crate::ev!(ctx, "send-stall");
                    } else {
                        n.to_server(&d);
                        drop(n);
                        if let Some(w) = w {
                            w.wake();
                        }
                        crate::ev!(ctx, "send-complete");
                    }
                }
                _ => {
                    let t = &mut self.tasks[chosen.2];
                    let polled = t.polls;
                    t.fut = None;
                    t.dropped = true;
                    let name = t.name.clone();
                    self.drops_done.push(name.clone());
                    ctx.count(if polled == 0 { "fault.drop_unpolled_future" } else { "fault.drop_pending_future" });
                    crate::ev!(ctx, "DROP {} (after {} polls)", name, polled);
                }
            }
        }
    }
}

// ---------------------------------------------------------------------------------------------
// helpers shared by the S-sim properties
// ---------------------------------------------------------------------------------------------

pub const NS_BASE: &str = "urn:ietf:params:xml:ns:netconf:base:1.0";

pub fn hello_with(caps: &[&str], session_id: &str) -> Vec<u8> {
    let mut s = format!("<hello xmlns=\"{NS_BASE}\"><capabilities>");
    for c in caps {
        s.push_str("<capability>");
        s.push_str(&crate::xml::esc_text(c));
        s.push_str("</capability>");
    }
    s.push_str("</capabilities><session-id>");
    s.push_str(session_id);
    s.push_str("</session-id></hello>");
    s.push_str(MARKER);
    s.into_bytes()
}

pub const CAP_BASE10: &str = "urn:ietf:params:netconf:base:1.0";
pub const CAP_BASE11: &str = "urn:ietf:params:netconf:base:1.1";
pub const CAP_JUNOS: &str = "http://xml.juniper.net/netconf/junos/1.0";
pub const CAP_CANDIDATE: &str = "urn:ietf:params:netconf:capability:candidate:1.0";

/// message-id attribute of a client `<rpc>` as the strict parser sees it
pub fn message_id_of(msg: &str) -> Option<String> {
    crate::xml::parse(msg).ok().and_then(|d| d.root.attr("message-id").map(str::to_string))
}

pub fn reply(id: &str, body: &str) -> Vec<u8> {
    format!("<rpc-reply message-id=\"{id}\" xmlns=\"{NS_BASE}\">{body}</rpc-reply>{MARKER}").into_bytes()
}

/// Build a net with `server`, optionally pre-queue a server hello, run `main` (plus whatever it
/// spawns) to quiescence under `cfg`.
pub fn drive(
    ctx: &mut Ctx,
    server: Box<dyn Server>,
    hello: Option<Vec<u8>>,
    cfg: SchedCfg,
    main: impl FnOnce(Shared, Spawner) -> BoxFut,
) -> (Quiescence, Exec) {
    let net = Net::new(server);
    if let Some(h) = hello {
        net.lock().unwrap().push_held(h);
    }
    let mut exec = Exec::new(net.clone(), cfg);
    let spawner = exec.spawner.clone();
    let fut = main(net, spawner);
    exec.spawn("main", false, fut);
    let q = exec.run(ctx);
    (q, exec)
}

/// Silence the default panic hook for panics that the simulators catch on purpose.
pub fn quiet_panics() {
    static ONCE: std::sync::Once = std::sync::Once::new();
    ONCE.call_once(|| {
        let default = std::panic::take_hook();
        std::panic::set_hook(Box::new(move |info| {
            if std::env::var_os("VERIF_SHOW_PANICS").is_some() {
                default(info);
            }
        }));
    });
}
