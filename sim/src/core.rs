//! Simulation core: choice tape, event log, run context, verdicts.

use std::collections::BTreeMap;

// ---------------------------------------------------------------------------------------------
// PRNG and mixing
// ---------------------------------------------------------------------------------------------

#[derive(Clone, Debug)]
pub struct Rng(pub u64);

impl Rng {
    pub fn next(&mut self) -> u64 {
        self.0 = self.0.wrapping_add(0x9E37_79B9_7F4A_7C15);
        let mut z = self.0;
        z = (z ^ (z >> 30)).wrapping_mul(0xBF58_476D_1CE4_E5B9);
        z = (z ^ (z >> 27)).wrapping_mul(0x94D0_49BB_1331_11EB);
        z ^ (z >> 31)
    }
}

pub fn mix(a: u64, b: u64) -> u64 {
    let mut r = Rng(a ^ b.rotate_left(32) ^ 0xA076_1D64_78BD_642F);
    r.next() ^ Rng(b.wrapping_mul(0xE703_7ED1_A0B4_28DB) ^ a).next()
}

pub fn fnv(s: &[u8]) -> u64 {
    let mut h = 0xcbf2_9ce4_8422_2325u64;
    for b in s {
        h ^= u64::from(*b);
        h = h.wrapping_mul(0x0000_0100_0000_01B3);
    }
    h
}

/// Seed of run `index` of property `prop` under `VERIF_SEED = base`.
pub fn run_seed(base: u64, prop: &str, tier: Tier, index: u64) -> u64 {
    mix(mix(base, fnv(prop.as_bytes())), mix(index, tier as u64))
}

// ---------------------------------------------------------------------------------------------
// Choice tape
// ---------------------------------------------------------------------------------------------

/// Every decision of a run goes through `pick`. In search mode values come from the PRNG and are
/// recorded; in replay mode they are read from the recorded tape (0 once it is exhausted), so a
/// run is a pure function of its tape. Generators are written so that a smaller value means
/// "fewer / simpler / in order / no fault"; shrinking the tape therefore shrinks the scenario.
#[derive(Clone, Debug)]
pub struct Tape {
    rng: Option<Rng>,
    replay: Vec<u32>,
    pos: usize,
    pub rec: Vec<u32>,
}

impl Tape {
    pub fn from_seed(seed: u64) -> Self {
        Self { rng: Some(Rng(seed)), replay: Vec::new(), pos: 0, rec: Vec::new() }
    }
    pub fn from_tape(tape: Vec<u32>) -> Self {
        Self { rng: None, replay: tape, pos: 0, rec: Vec::new() }
    }
    /// A value in `0..n` (`n >= 1`).
    pub fn pick(&mut self, n: usize) -> usize {
        debug_assert!(n >= 1);
        let n = n.max(1);
        let v = match &mut self.rng {
            Some(rng) => (rng.next() % n as u64) as u32,
            None => {
                let v = self.replay.get(self.pos).copied().unwrap_or(0);
                self.pos += 1;
                if (v as usize) >= n {
                    (n - 1) as u32
                } else {
                    v
                }
            }
        };
        // a generator that rejects and redraws would never end on a replayed (zero-padded) tape
        assert!(self.rec.len() < 4_000_000, "more than 4 000 000 draws in one run: a generator is looping on the tape");
        self.rec.push(v);
        v as usize
    }
    /// true with probability num/den; the *high* values are the "true" ones so that a zeroed
    /// tape means "never".
    pub fn chance(&mut self, num: usize, den: usize) -> bool {
        self.pick(den) >= den - num.min(den)
    }
    pub fn range(&mut self, lo: usize, hi_incl: usize) -> usize {
        lo + self.pick(hi_incl - lo + 1)
    }
    pub fn choose<'a, T>(&mut self, xs: &'a [T]) -> &'a T {
        &xs[self.pick(xs.len())]
    }
    /// weighted choice; index 0 should be the "simplest" alternative
    pub fn weighted(&mut self, weights: &[usize]) -> usize {
        let total: usize = weights.iter().sum();
        let mut v = self.pick(total.max(1));
        for (i, w) in weights.iter().enumerate() {
            if v < *w {
                return i;
            }
            v -= w;
        }
        weights.len() - 1
    }
}

// ---------------------------------------------------------------------------------------------
// Tier
// ---------------------------------------------------------------------------------------------

#[derive(Clone, Copy, Debug, PartialEq, Eq)]
pub enum Tier {
    Quick = 0,
    Thorough = 1,
}

impl Tier {
    pub fn as_str(self) -> &'static str {
        match self {
            Self::Quick => "quick",
            Self::Thorough => "thorough",
        }
    }
    pub fn parse(s: &str) -> Option<Self> {
        match s {
            "quick" => Some(Self::Quick),
            "thorough" => Some(Self::Thorough),
            _ => None,
        }
    }
}

// ---------------------------------------------------------------------------------------------
// Run context, verdict, outcome
// ---------------------------------------------------------------------------------------------

#[derive(Clone, Debug, PartialEq, Eq)]
pub enum Verdict {
    Pass,
    Violation { class: String, detail: String },
}

impl Verdict {
    pub fn violation(class: impl Into<String>, detail: impl Into<String>) -> Self {
        Self::Violation { class: class.into(), detail: detail.into() }
    }
    pub fn is_pass(&self) -> bool {
        matches!(self, Self::Pass)
    }
}

/// What a scenario function works with. One per run.
pub struct Ctx {
    pub tape: Tape,
    pub tier: Tier,
    /// running hash of the canonical event log
    pub log_hash: u64,
    /// kept only when a trace was requested (replay, minimised report, samples)
    pub trace: Option<Vec<String>>,
    /// fault kinds actually fired and rare-branch probes actually hit
    pub counters: BTreeMap<String, u64>,
    pub nontrivial: bool,
    pub sim_time_ns: u64,
    /// observations that are not violations (reported in evidence)
    pub notes: BTreeMap<String, u64>,
    /// enumerated mode: the scenario is selected by index rather than by the tape (see props)
    pub enum_index: Option<u64>,
    /// print events as they happen (debugging stuck runs)
    pub live: bool,
}

impl Ctx {
    pub fn new(tape: Tape, tier: Tier, want_trace: bool) -> Self {
        Self {
            tape,
            tier,
            log_hash: 0xcbf2_9ce4_8422_2325,
            trace: want_trace.then(Vec::new),
            counters: BTreeMap::new(),
            nontrivial: false,
            sim_time_ns: 0,
            notes: BTreeMap::new(),
            enum_index: None,
            live: std::env::var_os("VERIF_LIVE").is_some(),
        }
    }
    pub fn ev(&mut self, line: &str) {
        for b in line.as_bytes() {
            self.log_hash ^= u64::from(*b);
            self.log_hash = self.log_hash.wrapping_mul(0x0000_0100_0000_01B3);
        }
        self.log_hash ^= 0x0a;
        self.log_hash = self.log_hash.wrapping_mul(0x0000_0100_0000_01B3);
        if self.live {
            eprintln!("  | {line}");
        }
        if let Some(t) = &mut self.trace {
            if t.len() < 4000 {
                t.push(line.to_string());
            }
        }
    }
    pub fn count(&mut self, key: &str) {
        *self.counters.entry(key.to_string()).or_insert(0) += 1;
    }
    pub fn count_n(&mut self, key: &str, n: u64) {
        *self.counters.entry(key.to_string()).or_insert(0) += n;
    }
    pub fn note(&mut self, key: &str) {
        *self.notes.entry(key.to_string()).or_insert(0) += 1;
    }
    pub fn pick(&mut self, n: usize) -> usize {
        self.tape.pick(n)
    }
    pub fn chance(&mut self, num: usize, den: usize) -> bool {
        self.tape.chance(num, den)
    }
}

#[macro_export]
macro_rules! ev {
    ($ctx:expr, $($arg:tt)*) => {
        $ctx.ev(&format!($($arg)*))
    };
}

#[derive(Clone, Debug)]
pub struct Outcome {
    pub verdict: Verdict,
    pub log_hash: u64,
    pub nontrivial: bool,
    pub counters: BTreeMap<String, u64>,
    pub notes: BTreeMap<String, u64>,
    pub sim_time_ns: u64,
    pub tape: Vec<u32>,
    pub trace: Option<Vec<String>>,
}

/// A property check: scenario generator + run + oracle in one function.
pub struct PropSpec {
    pub id: &'static str,
    pub simulator: &'static str,
    pub level: &'static str,
    /// number of seeded runs per tier
    pub runs: fn(Tier) -> u64,
    /// number of enumerated scenarios (run in addition to the seeded ones), per tier
    pub enumerated: fn(Tier) -> u64,
    pub run: fn(&mut Ctx) -> Verdict,
    pub rule: &'static str,
    pub components: &'static [(&'static str, &'static str)],
    pub assumptions: &'static [&'static str],
    /// seconds without a heartbeat after which a worker declares the current run stuck
    pub watchdog_s: u64,
    /// true: a stuck run is a verdict of the property (spin); false: it is a harness error
    pub stuck_is_verdict: bool,
    /// run one simulation per process at a time and in the process's main thread context
    pub serial: bool,
}

// heartbeat shared between the run thread and the worker's monitor thread
pub static HEARTBEAT: std::sync::atomic::AtomicU64 = std::sync::atomic::AtomicU64::new(0);

pub fn beat() {
    HEARTBEAT.fetch_add(1, std::sync::atomic::Ordering::Relaxed);
}

/// Execute one run on a fresh thread with the hash-order seam seeded.
pub fn execute(spec: &'static PropSpec, tape: Tape, tier: Tier, enum_index: Option<u64>, hash_seed: u64, want_trace: bool) -> Outcome {
    let handle = std::thread::Builder::new()
        .name("sim-run".into())
        .stack_size(16 << 20)
        .spawn(move || {
            crate::hashseed::install(hash_seed);
            beat();
            let mut ctx = Ctx::new(tape, tier, want_trace);
            ctx.enum_index = enum_index;
            let verdict = match std::panic::catch_unwind(std::panic::AssertUnwindSafe(|| (spec.run)(&mut ctx))) {
                Ok(v) => v,
                Err(p) => {
                    let msg = p
                        .downcast_ref::<String>()
                        .cloned()
                        .or_else(|| p.downcast_ref::<&str>().map(|s| (*s).to_string()))
                        .unwrap_or_else(|| "panic".into());
                    Verdict::violation("harness-panic", msg)
                }
            };
            Outcome {
                verdict,
                log_hash: ctx.log_hash,
                nontrivial: ctx.nontrivial,
                counters: ctx.counters,
                notes: ctx.notes,
                sim_time_ns: ctx.sim_time_ns,
                tape: ctx.tape.rec,
                trace: ctx.trace,
            }
        })
        .expect("spawn run thread");
    match handle.join() {
        Ok(o) => o,
        Err(_) => Outcome {
            verdict: Verdict::violation("harness-panic", "run thread died"),
            log_hash: 0,
            nontrivial: false,
            counters: BTreeMap::new(),
            notes: BTreeMap::new(),
            sim_time_ns: 0,
            tape: Vec::new(),
            trace: None,
        },
    }
}

/// How a run is identified: seeded (tape generated from the seed) or explicit tape.
#[derive(Clone, Debug)]
pub enum RunId {
    Seeded { index: u64 },
    Enumerated { index: u64 },
}

pub fn execute_id(spec: &'static PropSpec, base_seed: u64, tier: Tier, id: &RunId, want_trace: bool) -> Outcome {
    match id {
        RunId::Seeded { index } => {
            let s = run_seed(base_seed, spec.id, tier, *index);
            execute(spec, Tape::from_seed(s), tier, None, mix(s, 0x5eed), want_trace)
        }
        RunId::Enumerated { index } => {
            let s = run_seed(base_seed ^ 0xE, spec.id, tier, *index);
            execute(spec, Tape::from_seed(s), tier, Some(*index), mix(s, 0x5eed), want_trace)
        }
    }
}

/// Start a child process, retrying for a moment when the system is short of resources (EAGAIN /
/// ENOMEM / ETXTBSY while many builds and workers run at once): a spawn failure of the harness's
/// own helper processes must not turn into a verdict or a harness error.
pub fn spawn_retry(cmd: &mut std::process::Command) -> std::io::Result<std::process::Child> {
    let mut last = None;
    for attempt in 0..40 {
        match cmd.spawn() {
            Ok(c) => return Ok(c),
            Err(e) => {
                last = Some(e);
                std::thread::sleep(std::time::Duration::from_millis(25 * (1 + attempt)));
            }
        }
    }
    Err(last.unwrap_or_else(|| std::io::Error::other("spawn failed")))
}
