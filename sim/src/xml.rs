//! A small strict XML 1.0 + Namespaces parser and writer, independent of quick-xml.
//!
//! It is the "other side of the wire": FakeNetconf / FakeJunos parse what the client sent with
//! it, and the oracles use it to read values back. It is deliberately strict (well-formedness
//! errors are errors) because C10 asks whether the client's output is well-formed.

use std::fmt::Write as _;

#[derive(Debug, Clone, PartialEq, Eq)]
pub struct Attr {
    pub qname: String,
    pub ns: Option<String>,
    pub local: String,
    pub value: String,
}

#[derive(Debug, Clone, PartialEq, Eq)]
pub struct Elem {
    pub qname: String,
    pub ns: Option<String>,
    pub local: String,
    pub attrs: Vec<Attr>,
    pub children: Vec<Node>,
    /// byte span of the element's content (between start and end tag) in the parsed input
    pub inner_span: (usize, usize),
    /// byte span of the whole element
    pub span: (usize, usize),
}

#[derive(Debug, Clone, PartialEq, Eq)]
pub enum Node {
    Elem(Elem),
    Text(String),
    Comment(String),
    Pi(String),
}

#[derive(Debug, Clone)]
pub struct Doc {
    pub decl: Option<String>,
    pub root: Elem,
}

#[derive(Debug, Clone, PartialEq, Eq)]
pub struct XmlError {
    pub pos: usize,
    pub msg: String,
}

impl std::fmt::Display for XmlError {
    fn fmt(&self, f: &mut std::fmt::Formatter<'_>) -> std::fmt::Result {
        write!(f, "xml error at byte {}: {}", self.pos, self.msg)
    }
}

impl Elem {
    pub fn is(&self, ns: &str, local: &str) -> bool {
        self.local == local && self.ns.as_deref() == Some(ns)
    }
    pub fn elems(&self) -> impl Iterator<Item = &Elem> {
        self.children.iter().filter_map(|n| match n {
            Node::Elem(e) => Some(e),
            _ => None,
        })
    }
    pub fn child(&self, local: &str) -> Option<&Elem> {
        self.elems().find(|e| e.local == local)
    }
    pub fn children_named<'a>(&'a self, local: &'a str) -> impl Iterator<Item = &'a Elem> + 'a {
        self.elems().filter(move |e| e.local == local)
    }
    /// concatenated character data of the direct text children
    pub fn text(&self) -> String {
        let mut s = String::new();
        for n in &self.children {
            if let Node::Text(t) = n {
                s.push_str(t);
            }
        }
        s
    }
    pub fn attr(&self, local: &str) -> Option<&str> {
        self.attrs
            .iter()
            .find(|a| a.local == local && !a.qname.starts_with("xmlns"))
            .map(|a| a.value.as_str())
    }
    pub fn attr_q(&self, qname: &str) -> Option<&str> {
        self.attrs.iter().find(|a| a.qname == qname).map(|a| a.value.as_str())
    }
    /// All element local names on every path below (and including) this element, as "a/b/c" paths.
    pub fn paths(&self, prefix: &str, out: &mut Vec<String>) {
        let p = if prefix.is_empty() { self.local.clone() } else { format!("{prefix}/{}", self.local) };
        out.push(p.clone());
        for e in self.elems() {
            e.paths(&p, out);
        }
    }
    /// Canonical form: namespaces resolved, attributes sorted, comments/PIs dropped,
    /// whitespace-only text between elements dropped. Used to compare fragments as subtrees.
    pub fn canon(&self) -> String {
        let mut s = String::new();
        self.canon_into(&mut s, false);
        s
    }
    /// as `canon`, with leading/trailing whitespace of every text node removed
    pub fn canon_trimmed(&self) -> String {
        let mut s = String::new();
        self.canon_into(&mut s, true);
        s
    }
    fn canon_into(&self, s: &mut String, trim: bool) {
        let _ = write!(s, "<{{{}}}{}", self.ns.as_deref().unwrap_or(""), self.local);
        let mut attrs: Vec<_> = self
            .attrs
            .iter()
            .filter(|a| !(a.qname == "xmlns" || a.qname.starts_with("xmlns:")))
            .map(|a| (format!("{{{}}}{}", a.ns.as_deref().unwrap_or(""), a.local), a.value.clone()))
            .collect();
        attrs.sort();
        for (k, v) in attrs {
            let _ = write!(s, " {k}={v:?}");
        }
        s.push('>');
        let has_elem = self.children.iter().any(|n| matches!(n, Node::Elem(_)));
        for n in &self.children {
            match n {
                Node::Elem(e) => e.canon_into(s, trim),
                Node::Text(t) => {
                    if has_elem && t.trim().is_empty() {
                        continue;
                    }
                    if trim {
                        let _ = write!(s, "{:?}", t.trim());
                    } else {
                        let _ = write!(s, "{t:?}");
                    }
                }
                _ => {}
            }
        }
        s.push_str("</>");
    }
}

struct P<'a> {
    s: &'a [u8],
    /// the same input as text: `rest_str` slices it in O(1) (validating the remainder for every
    /// token made the parser quadratic)
    src: &'a str,
    i: usize,
    /// tolerate undeclared namespace prefixes (XML 1.0 well-formedness without the Namespaces constraint)
    lenient_ns: bool,
}

type Scope = Vec<(String, String)>; // (prefix, uri); "" prefix = default namespace

fn is_name_start(c: char) -> bool {
    c == ':' || c == '_' || c.is_ascii_alphabetic() || (c as u32) >= 0x80
}
fn is_name_char(c: char) -> bool {
    is_name_start(c) || c == '-' || c == '.' || c.is_ascii_digit()
}
fn is_xml_char(c: char) -> bool {
    matches!(c as u32, 0x9 | 0xA | 0xD | 0x20..=0xD7FF | 0xE000..=0xFFFD | 0x10000..=0x10FFFF)
}

impl<'a> P<'a> {
    fn err<T>(&self, msg: impl Into<String>) -> Result<T, XmlError> {
        Err(XmlError { pos: self.i, msg: msg.into() })
    }
    fn rest(&self) -> &'a [u8] {
        &self.s[self.i..]
    }
    /// the remainder as text ("" when the position is not a character boundary, which only an earlier
    /// error can cause)
    fn rest_str(&self) -> &'a str {
        self.src.get(self.i..).unwrap_or("")
    }
    fn starts(&self, p: &str) -> bool {
        self.rest().starts_with(p.as_bytes())
    }
    fn peek_char(&self) -> Option<char> {
        // decode one character (validating the whole remainder for every character is quadratic)
        let r = self.rest();
        (1..=r.len().min(4)).find_map(|k| std::str::from_utf8(&r[..k]).ok()).and_then(|s| s.chars().next())
    }
    fn skip_ws(&mut self) -> bool {
        let start = self.i;
        while self.i < self.s.len() && matches!(self.s[self.i], b' ' | b'\t' | b'\n' | b'\r') {
            self.i += 1;
        }
        self.i > start
    }
    fn name(&mut self) -> Result<String, XmlError> {
        let st = self.rest_str();
        let mut len = 0;
        for (k, c) in st.char_indices() {
            let ok = if k == 0 { is_name_start(c) } else { is_name_char(c) };
            if !ok {
                break;
            }
            len = k + c.len_utf8();
        }
        if len == 0 {
            return self.err("expected a name");
        }
        let n = st[..len].to_string();
        self.i += len;
        Ok(n)
    }
    fn reference(&mut self, out: &mut String) -> Result<(), XmlError> {
        // at '&'
        let st = self.rest_str();
        let end = match st.find(';') {
            Some(e) if e <= 12 => e,
            _ => return self.err("unterminated entity reference"),
        };
        let body = &st[1..end];
        let c = match body {
            "lt" => '<',
            "gt" => '>',
            "amp" => '&',
            "quot" => '"',
            "apos" => '\'',
            _ if body.starts_with("#x") => {
                let v = u32::from_str_radix(&body[2..], 16).ok().and_then(char::from_u32);
                match v {
                    Some(c) if is_xml_char(c) && body.len() > 2 => c,
                    _ => return self.err(format!("bad character reference &{body};")),
                }
            }
            _ if body.starts_with('#') => {
                let v = body[1..].parse::<u32>().ok().and_then(char::from_u32);
                match v {
                    Some(c) if is_xml_char(c) && body.len() > 1 && body[1..].bytes().all(|b| b.is_ascii_digit()) => c,
                    _ => return self.err(format!("bad character reference &{body};")),
                }
            }
            _ => return self.err(format!("undefined entity &{body};")),
        };
        out.push(c);
        self.i += end + 1;
        Ok(())
    }
    fn attr_value(&mut self) -> Result<String, XmlError> {
        let q = match self.s.get(self.i) {
            Some(b'"') => b'"',
            Some(b'\'') => b'\'',
            _ => return self.err("attribute value must be quoted"),
        };
        self.i += 1;
        let mut out = String::new();
        loop {
            let Some(c) = self.peek_char() else { return self.err("eof in attribute value") };
            if c as u32 == q as u32 {
                self.i += 1;
                return Ok(out);
            }
            match c {
                '<' => return self.err("'<' in attribute value"),
                '&' => self.reference(&mut out)?,
                c if !is_xml_char(c) => return self.err("illegal character in attribute value"),
                '\t' | '\n' | '\r' => {
                    // attribute value normalisation
                    out.push(' ');
                    self.i += 1;
                }
                c => {
                    out.push(c);
                    self.i += c.len_utf8();
                }
            }
        }
    }
    fn comment(&mut self) -> Result<String, XmlError> {
        // at "<!--"
        self.i += 4;
        let st = self.rest_str();
        match st.find("--") {
            Some(e) if st[e..].starts_with("-->") => {
                let c = st[..e].to_string();
                if c.chars().any(|c| !is_xml_char(c)) {
                    return self.err("illegal character in comment");
                }
                self.i += e + 3;
                Ok(c)
            }
            Some(_) => self.err("'--' inside comment"),
            None => self.err("unterminated comment"),
        }
    }
    fn pi(&mut self) -> Result<String, XmlError> {
        // at "<?"
        let st = self.rest_str();
        match st.get(2..).and_then(|t| t.find("?>")).map(|e| e + 2) {
            Some(e) => {
                let body = st[2..e].to_string();
                let target: String = body.chars().take_while(|c| is_name_char(*c)).collect();
                if target.is_empty() {
                    return self.err("processing instruction without target");
                }
                if target.eq_ignore_ascii_case("xml") {
                    return self.err("xml declaration not at start of document");
                }
                self.i += e + 2;
                Ok(body)
            }
            None => self.err("unterminated processing instruction"),
        }
    }
    fn element(&mut self, scope: &mut Scope) -> Result<Elem, XmlError> {
        // at '<' followed by a name start
        let start = self.i;
        self.i += 1;
        let qname = self.name()?;
        let mut raw: Vec<(String, String, usize)> = Vec::new();
        let empty;
        loop {
            let ws = self.skip_ws();
            match self.s.get(self.i) {
                Some(b'>') => {
                    self.i += 1;
                    empty = false;
                    break;
                }
                Some(b'/') => {
                    if self.s.get(self.i + 1) == Some(&b'>') {
                        self.i += 2;
                        empty = true;
                        break;
                    }
                    return self.err("expected '/>'");
                }
                Some(_) => {
                    if !ws {
                        return self.err("whitespace required before attribute");
                    }
                    let pos = self.i;
                    let an = self.name()?;
                    self.skip_ws();
                    if self.s.get(self.i) != Some(&b'=') {
                        return self.err("expected '=' after attribute name");
                    }
                    self.i += 1;
                    self.skip_ws();
                    let av = self.attr_value()?;
                    if raw.iter().any(|(n, _, _)| *n == an) {
                        return Err(XmlError { pos, msg: format!("duplicate attribute {an}") });
                    }
                    raw.push((an, av, pos));
                }
                None => return self.err("eof in start tag"),
            }
        }
        let depth = scope.len();
        for (n, v, pos) in &raw {
            if n == "xmlns" {
                scope.push((String::new(), v.clone()));
            } else if let Some(p) = n.strip_prefix("xmlns:") {
                if v.is_empty() || p.is_empty() || p.contains(':') {
                    return Err(XmlError { pos: *pos, msg: "bad namespace declaration".into() });
                }
                scope.push((p.to_string(), v.clone()));
            }
        }
        let lenient_ns = self.lenient_ns;
        let resolve = |qn: &str, is_attr: bool, scope: &Scope, pos: usize| -> Result<(Option<String>, String), XmlError> {
            match qn.split_once(':') {
                Some((p, l)) => {
                    if p.is_empty() || l.is_empty() || l.contains(':') {
                        return Err(XmlError { pos, msg: format!("bad qualified name {qn}") });
                    }
                    if p == "xml" {
                        return Ok((Some("http://www.w3.org/XML/1998/namespace".into()), l.into()));
                    }
                    if p == "xmlns" {
                        return Ok((Some("http://www.w3.org/2000/xmlns/".into()), l.into()));
                    }
                    match scope.iter().rev().find(|(sp, _)| sp == p) {
                        Some((_, uri)) => Ok((Some(uri.clone()), l.into())),
                        None if lenient_ns => Ok((None, l.into())),
                        None => Err(XmlError { pos, msg: format!("undeclared namespace prefix {p}") }),
                    }
                }
                None => {
                    if is_attr {
                        Ok((None, qn.into()))
                    } else {
                        match scope.iter().rev().find(|(sp, _)| sp.is_empty()) {
                            Some((_, uri)) if !uri.is_empty() => Ok((Some(uri.clone()), qn.into())),
                            _ => Ok((None, qn.into())),
                        }
                    }
                }
            }
        };
        let (ns, local) = resolve(&qname, false, scope, start)?;
        let mut attrs = Vec::new();
        for (n, v, pos) in raw {
            let (ans, alocal) = resolve(&n, true, scope, pos)?;
            if ans.is_some() && attrs.iter().any(|a: &Attr| a.ns == ans && a.local == alocal) {
                return Err(XmlError { pos, msg: format!("duplicate expanded attribute name {n}") });
            }
            attrs.push(Attr { qname: n, ns: ans, local: alocal, value: v });
        }
        let inner_start = self.i;
        let mut children = Vec::new();
        let mut inner_end = self.i;
        if !empty {
            let mut text = String::new();
            loop {
                if self.i >= self.s.len() {
                    return self.err(format!("eof inside <{qname}>"));
                }
                if self.starts("</") {
                    if !text.is_empty() {
                        children.push(Node::Text(std::mem::take(&mut text)));
                    }
                    inner_end = self.i;
                    self.i += 2;
                    let en = self.name()?;
                    if en != qname {
                        return self.err(format!("mismatched end tag </{en}> for <{qname}>"));
                    }
                    self.skip_ws();
                    if self.s.get(self.i) != Some(&b'>') {
                        return self.err("expected '>' in end tag");
                    }
                    self.i += 1;
                    break;
                } else if self.starts("<!--") {
                    if !text.is_empty() {
                        children.push(Node::Text(std::mem::take(&mut text)));
                    }
                    children.push(Node::Comment(self.comment()?));
                } else if self.starts("<![CDATA[") {
                    self.i += 9;
                    let st = self.rest_str();
                    match st.find("]]>") {
                        Some(e) => {
                            if st[..e].chars().any(|c| !is_xml_char(c)) {
                                return self.err("illegal character in CDATA");
                            }
                            text.push_str(&st[..e]);
                            self.i += e + 3;
                        }
                        None => return self.err("unterminated CDATA section"),
                    }
                } else if self.starts("<?") {
                    if !text.is_empty() {
                        children.push(Node::Text(std::mem::take(&mut text)));
                    }
                    children.push(Node::Pi(self.pi()?));
                } else if self.starts("<!") {
                    return self.err("markup declaration not allowed in content");
                } else if self.starts("<") {
                    if !text.is_empty() {
                        children.push(Node::Text(std::mem::take(&mut text)));
                    }
                    children.push(Node::Elem(self.element(scope)?));
                } else if self.starts("&") {
                    self.reference(&mut text)?;
                } else if self.starts("]]>") {
                    return self.err("']]>' not allowed in character data");
                } else {
                    let Some(c) = self.peek_char() else { return self.err("invalid utf-8") };
                    if !is_xml_char(c) {
                        return self.err(format!("illegal character U+{:04X}", c as u32));
                    }
                    text.push(c);
                    self.i += c.len_utf8();
                }
            }
        }
        scope.truncate(depth);
        Ok(Elem { qname, ns, local, attrs, children, inner_span: (inner_start, inner_end), span: (start, self.i) })
    }
}

/// Parse a complete document. Trailing whitespace, comments and PIs after the root are allowed.
pub fn parse(input: &str) -> Result<Doc, XmlError> {
    parse_with(input, false)
}

/// As `parse`, but an undeclared namespace prefix is not an error (the name keeps its prefix in
/// `qname`, `ns` is None). Junos itself accepts e.g. `junos:comment` without a declaration.
pub fn parse_lenient_ns(input: &str) -> Result<Doc, XmlError> {
    parse_with(input, true)
}

fn parse_with(input: &str, lenient_ns: bool) -> Result<Doc, XmlError> {
    let mut p = P { s: input.as_bytes(), src: input, i: 0, lenient_ns };
    let mut decl = None;
    if p.starts("<?xml") && matches!(p.s.get(5), Some(b' ' | b'\t' | b'\n' | b'\r' | b'?')) {
        match input.find("?>") {
            Some(e) => {
                let body = &input[5..e];
                if !body.contains("version") {
                    return p.err("xml declaration without version");
                }
                decl = Some(body.trim().to_string());
                p.i = e + 2;
            }
            None => return p.err("unterminated xml declaration"),
        }
    }
    let mut root = None;
    loop {
        p.skip_ws();
        if p.i >= p.s.len() {
            break;
        }
        if p.starts("<!--") {
            p.comment()?;
        } else if p.starts("<?") {
            p.pi()?;
        } else if p.starts("<!DOCTYPE") {
            return p.err("DOCTYPE not supported (and not permitted in NETCONF)");
        } else if p.starts("<") {
            if root.is_some() {
                return p.err("more than one root element");
            }
            let mut scope = Scope::new();
            root = Some(p.element(&mut scope)?);
        } else {
            return p.err("character data outside the root element");
        }
    }
    match root {
        Some(root) => Ok(Doc { decl, root }),
        None => p.err("no root element"),
    }
}

/// Parse a sequence of elements / text as the content of an anonymous wrapper (for fragments).
pub fn parse_fragment(input: &str) -> Result<Elem, XmlError> {
    let wrapped = format!("<verif-fragment-wrapper>{input}</verif-fragment-wrapper>");
    parse(&wrapped).map(|d| d.root)
}

pub fn esc_text(s: &str) -> String {
    let mut o = String::with_capacity(s.len());
    for c in s.chars() {
        match c {
            '<' => o.push_str("&lt;"),
            '>' => o.push_str("&gt;"),
            '&' => o.push_str("&amp;"),
            c => o.push(c),
        }
    }
    o
}

pub fn esc_attr(s: &str) -> String {
    let mut o = String::with_capacity(s.len());
    for c in s.chars() {
        match c {
            '<' => o.push_str("&lt;"),
            '>' => o.push_str("&gt;"),
            '&' => o.push_str("&amp;"),
            '"' => o.push_str("&quot;"),
            '\'' => o.push_str("&apos;"),
            '\n' => o.push_str("&#10;"),
            '\t' => o.push_str("&#9;"),
            '\r' => o.push_str("&#13;"),
            c => o.push(c),
        }
    }
    o
}

#[cfg(test)]
mod tests {
    use super::*;
    #[test]
    fn basics() {
        let d = parse(r#"<?xml version="1.0"?><a xmlns="u" xmlns:p="v" p:x="1" y='2'><!--c--><p:b>t&amp;&#65;<![CDATA[<z>]]></p:b><c/></a>"#).unwrap();
        assert!(d.root.is("u", "a"));
        let b = d.root.child("b").unwrap();
        assert_eq!(b.ns.as_deref(), Some("v"));
        assert_eq!(b.text(), "t&A<z>");
        assert_eq!(d.root.attr("y"), Some("2"));
        assert!(parse("<a><b></a>").is_err());
        assert!(parse("<a x='1' x='2'/>").is_err());
        assert!(parse("<a>]]></a>").is_err());
        assert!(parse("<a>&foo;</a>").is_err());
        assert!(parse("<a/><b/>").is_err());
        assert!(parse("<p:a/>").is_err());
        assert!(parse("<a x=1/>").is_err());
        assert!(parse("<a>x < y</a>").is_err());
    }
}
