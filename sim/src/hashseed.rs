//! Hash-order seam.
//!
//! std's `RandomState` obtains its per-thread keys from `getrandom(2)`, which it looks up as a
//! weak symbol on purpose ("to allow interposition"). The harness binary defines `getrandom`; on
//! a thread that has a seed installed the bytes come from a SplitMix64 stream of that seed, so
//! the iteration order of every `HashMap`/`HashSet` created on that thread is a pure function of
//! the seed. Every simulation run executes on a fresh thread, which installs its seed first.
//! Threads without a seed (the harness's own, the runtime's helper threads) fall through to the
//! real system call.

use std::cell::Cell;

thread_local! {
    static SEED: Cell<Option<u64>> = const { Cell::new(None) };
}

pub fn install(seed: u64) {
    SEED.with(|s| s.set(Some(seed)));
}

/// # Safety
/// Called by libc users with a valid buffer of `len` bytes.
#[no_mangle]
pub unsafe extern "C" fn getrandom(buf: *mut u8, len: usize, flags: u32) -> isize {
    let seeded = SEED.try_with(|s| {
        s.get().map(|mut st| {
            let out = std::slice::from_raw_parts_mut(buf, len);
            for chunk in out.chunks_mut(8) {
                st = st.wrapping_add(0x9E37_79B9_7F4A_7C15);
                let mut z = st;
                z = (z ^ (z >> 30)).wrapping_mul(0xBF58_476D_1CE4_E5B9);
                z = (z ^ (z >> 27)).wrapping_mul(0x94D0_49BB_1331_11EB);
                z ^= z >> 31;
                let b = z.to_le_bytes();
                chunk.copy_from_slice(&b[..chunk.len()]);
            }
            s.set(Some(st));
        })
    });
    match seeded {
        Ok(Some(())) => len as isize,
        _ => libc::syscall(libc::SYS_getrandom, buf, len, flags) as isize,
    }
}
