//! FakeIrrd: an in-memory IRR database served over the IRRd query protocol through the stream
//! seam of the vendored `irrc`, plus a reference resolver that reads the database directly
//! (no protocol, no pipelining) and drives `rpsl`'s own expression evaluator.

use std::collections::{BTreeMap, BTreeSet, VecDeque};
use std::fmt::Write as _;
use std::sync::{Arc, Mutex};

use ip::{Any, Prefix, PrefixSet};
use rpsl::expr::eval::{Evaluate, EvaluationError, Evaluator, Resolver};
use rpsl::expr::MpFilterExpr;
use rpsl::names::{AsSet, AutNum, FilterSet, RouteSet};
use rpsl::primitive::PeerAs;

use crate::core::{Ctx, Rng};

#[derive(Clone, Debug, Default)]
pub struct Db {
    /// as-set name -> members (AS numbers "AS65001" or as-set names)
    pub as_sets: BTreeMap<String, Vec<String>>,
    /// route-set name -> members (prefixes or route-set names)
    pub route_sets: BTreeMap<String, Vec<String>>,
    /// filter-set name -> mp-filter expression
    pub filter_sets: BTreeMap<String, String>,
    /// origin AS number -> (route prefixes, route6 prefixes); duplicates allowed
    pub routes: BTreeMap<String, (Vec<String>, Vec<String>)>,
    /// as-sets whose members query is answered with an error response (the reference treats
    /// them as unobtainable)
    pub broken_as_sets: BTreeMap<String, Fault>,
    /// as-set whose members query makes the IRR connection break (every later read/write fails)
    pub reset_on_as_set: Option<String>,
    /// every route6 query (!6) is answered with an error response ("the mirror has no IPv6 data"):
    /// the client sinks those errors, so the reference treats every AS as having no route6 objects
    pub fail_all_v6: bool,
}

impl Db {
    /// AS numbers reachable from an as-set (recursive, cycle-safe). None = the set does not exist.
    pub fn expand_as_set(&self, name: &str) -> Option<BTreeSet<String>> {
        let key = name.to_ascii_uppercase();
        self.as_sets.get(&key)?;
        let mut out = BTreeSet::new();
        let mut seen = BTreeSet::new();
        let mut stack = vec![key];
        while let Some(s) = stack.pop() {
            if !seen.insert(s.clone()) {
                continue;
            }
            if let Some(ms) = self.as_sets.get(&s) {
                for m in ms {
                    let m = m.to_ascii_uppercase();
                    if m.contains("AS-") {
                        stack.push(m);
                    } else {
                        out.insert(m);
                    }
                }
            }
        }
        Some(out)
    }
    pub fn expand_route_set(&self, name: &str) -> Option<Vec<String>> {
        let key = name.to_ascii_uppercase();
        self.route_sets.get(&key)?;
        let mut out = Vec::new();
        let mut seen = BTreeSet::new();
        let mut stack = vec![key];
        while let Some(s) = stack.pop() {
            if !seen.insert(s.clone()) {
                continue;
            }
            if let Some(ms) = self.route_sets.get(&s) {
                for m in ms {
                    if m.to_ascii_uppercase().contains("RS-") {
                        stack.push(m.to_ascii_uppercase());
                    } else {
                        out.push(m.clone());
                    }
                }
            }
        }
        Some(out)
    }
    pub fn prefixes_of(&self, asn: &str) -> (Vec<String>, Vec<String>) {
        let (v4, v6) = self.routes.get(&asn.to_ascii_uppercase()).cloned().unwrap_or_default();
        if self.fail_all_v6 {
            (v4, Vec::new())
        } else {
            (v4, v6)
        }
    }
}

// ---------------------------------------------------------------------------------------------
// database generator
// ---------------------------------------------------------------------------------------------

pub struct GenCfg {
    pub max_as: usize,
    pub max_sets: usize,
    pub max_routes_per_as: usize,
    /// 1-4 filter-sets, some of which hold constructs the evaluator cannot evaluate (PeerAS, AS-path
    /// regular expression, attribute match) or a literal prefix list of 300-1200 entries (5-20 KB of object text);
    /// route-sets may have members that are not prefixes (AS numbers, as-set names)
    pub rich_filter_sets: bool,
}

pub fn v4_prefix(ctx: &mut Ctx) -> String {
    let len = *ctx.tape.choose(&[8usize, 16, 19, 22, 24, 24, 28, 32]);
    let a = [10u32, 41, 100, 192, 198, 203][ctx.pick(6)];
    let addr: u32 = (a << 24) | ((ctx.pick(256) as u32) << 16) | ((ctx.pick(4) as u32) << 14) | ((ctx.pick(8) as u32) << 5);
    let masked = if len == 0 { 0 } else { addr & (u32::MAX << (32 - len)) };
    format!("{}.{}.{}.{}/{len}", masked >> 24, (masked >> 16) & 255, (masked >> 8) & 255, masked & 255)
}

pub fn v6_prefix(ctx: &mut Ctx) -> String {
    let len = *ctx.tape.choose(&[29usize, 32, 32, 40, 48, 48, 56, 64]);
    let hi: u64 = (0x2001_0db8u64 << 32) | ((ctx.pick(0x20) as u64) << 24) | ((ctx.pick(0x100) as u64) << 8) | ctx.pick(4) as u64 * 0x40;
    let masked = hi & (u64::MAX << (64 - len));
    format!("{:x}:{:x}:{:x}:{:x}::/{len}", masked >> 48, (masked >> 32) & 0xffff, (masked >> 16) & 0xffff, masked & 0xffff)
}

pub fn gen_db(ctx: &mut Ctx, cfg: &GenCfg) -> Db {
    let mut db = Db::default();
    let n_as = 1 + ctx.pick(cfg.max_as);
    let asns: Vec<String> = (0..n_as).map(|i| format!("AS{}", 64_500 + i)).collect();
    for a in &asns {
        // IPv4-only / IPv6-only / both / none
        let shape = ctx.tape.weighted(&[3, 2, 2, 1]);
        let mut v4 = Vec::new();
        let mut v6 = Vec::new();
        if shape == 0 || shape == 1 {
            for _ in 0..(1 + ctx.pick(cfg.max_routes_per_as)) {
                v4.push(v4_prefix(ctx));
            }
            if ctx.chance(1, 4) {
                let d = v4[0].clone();
                v4.push(d); // duplicate prefix
            }
        }
        if shape == 0 || shape == 2 {
            for _ in 0..(1 + ctx.pick(cfg.max_routes_per_as)) {
                v6.push(v6_prefix(ctx));
            }
        }
        db.routes.insert(a.clone(), (v4, v6));
    }
    let n_sets = 1 + ctx.pick(cfg.max_sets);
    let set_names: Vec<String> = (0..n_sets)
        .map(|i| match i % 4 {
            3 => format!("AS{}:AS-CUST{}", 64_500 + i, i),
            _ => format!("AS-SET{i}"),
        })
        .collect();
    for name in &set_names {
        let mut members = Vec::new();
        for _ in 0..ctx.pick(5) {
            if ctx.chance(1, 3) {
                // nested (possibly cyclic, possibly itself, possibly unknown)
                if ctx.chance(1, 8) {
                    members.push("AS-NOSUCHSET".into());
                } else {
                    members.push(ctx.tape.choose(&set_names).clone());
                }
            } else if ctx.chance(1, 10) {
                members.push("AS64999".into()); // an AS without any route object
            } else {
                members.push(ctx.tape.choose(&asns).clone());
            }
        }
        db.as_sets.insert(name.clone(), members);
    }
    let n_rs = ctx.pick(3);
    let rs_names: Vec<String> = (0..n_rs).map(|i| format!("RS-SET{i}")).collect();
    for name in &rs_names {
        let mut members = Vec::new();
        for _ in 0..ctx.pick(5) {
            if cfg.rich_filter_sets && ctx.chance(1, 5) {
                // RFC 2622 section 5.2: a route-set member may also be an AS number or an as-set name; the
                // client asks for prefixes, cannot parse such a member and skips it
                members.push((*ctx.tape.choose(&["AS64500", "AS-SET0", "AS64501^+"])).to_string());
            } else if ctx.chance(1, 4) {
                members.push(ctx.tape.choose(&rs_names).clone());
            } else if ctx.pick(2) == 0 {
                members.push(v4_prefix(ctx));
            } else {
                members.push(v6_prefix(ctx));
            }
        }
        db.route_sets.insert(name.clone(), members);
    }
    let n_fs = if cfg.rich_filter_sets { 1 + ctx.pick(4) } else { ctx.pick(3) };
    for i in 0..n_fs {
        // filter-sets refer to names defined above (and to earlier filter-sets)
        let mut atoms: Vec<String> = set_names.clone();
        atoms.extend(asns.iter().take(3).cloned());
        atoms.extend(rs_names.iter().cloned());
        for j in 0..i {
            atoms.push(format!("FLTR-SET{j}"));
        }
        let mut e = gen_expr(ctx, &atoms, 1);
        if cfg.rich_filter_sets {
            match ctx.tape.weighted(&[4, 1, 1, 1, 2]) {
                1 => e = format!("({e}) AND PeerAS"),
                2 => e = format!("({e}) AND <^AS64500 AS64501*$>"),
                3 => e = format!("({e}) AND community(64500:1)"),
                4 => {
                    let n = 300 + ctx.pick(900);
                    let a = 11 + ctx.pick(100);
                    let list: Vec<String> = (0..n).map(|k| format!("{a}.{}.{}.0/25", k / 256, k % 256)).collect();
                    e = format!("{{{}}}", list.join(", "));
                }
                _ => {}
            }
        }
        db.filter_sets.insert(format!("FLTR-SET{i}"), e);
    }
    db
}

pub fn atoms_of(db: &Db) -> Vec<String> {
    let mut atoms: Vec<String> = Vec::new();
    atoms.extend(db.as_sets.keys().cloned());
    atoms.extend(db.routes.keys().cloned());
    atoms.extend(db.route_sets.keys().cloned());
    atoms.extend(db.filter_sets.keys().cloned());
    atoms
}

fn range_op(ctx: &mut Ctx) -> &'static str {
    *ctx.tape.choose(&["", "", "^+", "^-", "^24", "^24-32", "^48", "^32-48", "^16-24"])
}

pub fn gen_literal_set(ctx: &mut Ctx) -> String {
    let n = ctx.pick(4);
    let mut s = String::from("{");
    for i in 0..n {
        if i > 0 {
            s.push_str(", ");
        }
        if ctx.pick(2) == 0 {
            s.push_str(&v4_prefix(ctx));
        } else {
            s.push_str(&v6_prefix(ctx));
        }
        s.push_str(range_op(ctx));
    }
    s.push('}');
    s.push_str(range_op(ctx));
    s
}

/// Operand of NOT. generic-ip's set complement costs time exponential in the prefix length
/// (seconds for an IPv4 /24, unbounded for IPv6), so NOT is only generated over `ANY` and over
/// literal sets of short IPv4 prefixes.
fn not_operand(ctx: &mut Ctx) -> String {
    if ctx.pick(4) == 0 {
        return "ANY".into();
    }
    let n = 1 + ctx.pick(2);
    let mut s = String::from("{");
    for i in 0..n {
        if i > 0 {
            s.push_str(", ");
        }
        let len = 8 + ctx.pick(5);
        let a = [10u32, 41, 100, 192, 198, 203][ctx.pick(6)];
        let addr: u32 = ((a << 24) | ((ctx.pick(256) as u32) << 16)) & (u32::MAX << (32 - len));
        s.push_str(&format!("{}.{}.0.0/{len}", addr >> 24, (addr >> 16) & 255));
        s.push_str(*ctx.tape.choose(&["", "^+", "^-", "^16-24", "^24"]));
    }
    s.push('}');
    s
}

/// An mp-filter expression over `atoms` (names) with AND / OR / NOT, parentheses, literal prefix
/// sets and range operators.
pub fn gen_expr(ctx: &mut Ctx, atoms: &[String], depth: usize) -> String {
    let leaf = |ctx: &mut Ctx| -> String {
        match ctx.tape.weighted(&[6, 2, 1]) {
            0 if !atoms.is_empty() => {
                let a = ctx.tape.choose(atoms).clone();
                if a.starts_with("FLTR-") {
                    a
                } else {
                    format!("{a}{}", range_op(ctx))
                }
            }
            2 => "ANY".into(),
            _ => gen_literal_set(ctx),
        }
    };
    if depth == 0 || ctx.tape.weighted(&[3, 2]) == 0 {
        return leaf(ctx);
    }
    match ctx.tape.weighted(&[3, 3, 1, 1]) {
        0 => format!("{} AND {}", leaf(ctx), gen_expr(ctx, atoms, depth - 1)),
        1 => format!("{} OR {}", leaf(ctx), gen_expr(ctx, atoms, depth - 1)),
        2 => match ctx.pick(3) {
            0 => format!("NOT {}", not_operand(ctx)),
            1 => format!("{} AND NOT {}", leaf(ctx), not_operand(ctx)),
            _ => format!("(NOT {}) OR {}", not_operand(ctx), gen_expr(ctx, atoms, depth - 1)),
        },
        _ => format!("({}) AND {}", gen_expr(ctx, atoms, depth - 1), leaf(ctx)),
    }
}

// ---------------------------------------------------------------------------------------------
// protocol server
// ---------------------------------------------------------------------------------------------

#[derive(Clone, Copy, Debug, PartialEq, Eq, PartialOrd, Ord)]
pub enum Fault {
    NotFound,
    NotUnique,
    Other,
}

#[derive(Default)]
pub struct IrrState {
    pub db: Db,
    /// every query line received, in order
    pub queries: Vec<String>,
    /// fault to inject for the n-th data query (counted over !i !g !6 !m only)
    pub faults: BTreeMap<usize, Fault>,
    pub data_queries: usize,
    pub faults_fired: Vec<(usize, String, Fault)>,
    /// refuse connections
    pub refuse: bool,
    /// data queries (!i !g !6 !m) are read but never answered (a mirror that went silent)
    pub silent_data: bool,
    pub connections: usize,
    /// !g / !6 for an AS without routes: answer D (true) or C (false)
    pub empty_is_not_found: bool,
    /// filter-set objects are returned twice (two sources): the client stops at the first
    pub duplicate_objects: bool,
    /// read segmentation: 0 = as much as fits, 1 = 1..7 bytes, 2 = mixed
    pub seg_mode: usize,
    pub seg_rng: Option<Rng>,
    pub reads: usize,
    /// reads into an empty buffer (a client whose receive buffer is full asks for 0 bytes and gets 0 for ever)
    pub zero_len_reads: usize,
    pub short_reads: usize,
    pub partial_writes: usize,
    pub bytes_out: usize,
    /// the connection has been reset: every read and write fails
    pub dead: bool,
    /// queries (exact line, e.g. "!gAS64501") that are answered with this error every time, on
    /// every connection
    pub broken_queries: BTreeMap<String, Fault>,
}

pub type SharedIrr = Arc<Mutex<IrrState>>;

fn data(s: &str) -> String {
    if s.is_empty() {
        "C\n".to_string()
    } else {
        format!("A{}\n{}\nC\n", s.len() + 1, s)
    }
}

impl IrrState {
    fn answer(&mut self, line: &str) -> String {
        self.queries.push(line.to_string());
        if line == "!!" || line == "!q" {
            return String::new();
        }
        if line.starts_with("!n") || line.starts_with("!t") {
            return "C\n".into();
        }
        let k = self.data_queries;
        self.data_queries += 1;
        if self.silent_data {
            return String::new();
        }
        if let Some(f) = self.broken_queries.get(line).copied() {
            self.faults_fired.push((k, line.to_string(), f));
            return match f {
                Fault::NotFound => "D\n".into(),
                Fault::NotUnique => "E\n".into(),
                Fault::Other => "F injected error\n".into(),
            };
        }
        if let Some(f) = self.faults.get(&k).copied() {
            self.faults_fired.push((k, line.to_string(), f));
            return match f {
                Fault::NotFound => "D\n".into(),
                Fault::NotUnique => "E\n".into(),
                Fault::Other => "F injected error\n".into(),
            };
        }
        if let Some(rest) = line.strip_prefix("!i") {
            let recursive = rest.ends_with(",1");
            let name = rest.strip_suffix(",1").unwrap_or(rest);
            if self.db.reset_on_as_set.as_deref().is_some_and(|s| s.eq_ignore_ascii_case(name)) {
                self.dead = true;
                self.faults_fired.push((k, format!("RESET {line}"), Fault::Other));
                return String::new();
            }
            if !recursive {
                // direct members only: nested sets come back as names
                let key = name.to_ascii_uppercase();
                let members = self.db.route_sets.get(&key).or_else(|| self.db.as_sets.get(&key));
                return match members {
                    Some(m) => data(&m.join(" ")),
                    None => "D\n".into(),
                };
            }
            if name.to_ascii_uppercase().contains("RS-") {
                return match self.db.expand_route_set(name) {
                    Some(ps) => data(&ps.join(" ")),
                    None => "D\n".into(),
                };
            }
            if let Some(f) = self.db.broken_as_sets.get(&name.to_ascii_uppercase()).copied() {
                self.faults_fired.push((k, line.to_string(), f));
                return match f {
                    Fault::NotFound => "D\n".into(),
                    Fault::NotUnique => "E\n".into(),
                    Fault::Other => "F injected error\n".into(),
                };
            }
            return match self.db.expand_as_set(name) {
                Some(asns) => data(&asns.into_iter().collect::<Vec<_>>().join(" ")),
                None => "D\n".into(),
            };
        }
        if let Some(asn) = line.strip_prefix("!g") {
            let (v4, _) = self.db.prefixes_of(asn);
            return if v4.is_empty() && self.empty_is_not_found { "D\n".into() } else { data(&v4.join(" ")) };
        }
        if self.db.fail_all_v6 && line.starts_with("!6") {
            self.faults_fired.push((k, line.to_string(), Fault::Other));
            return "F no IPv6 data on this mirror\n".into();
        }
        if let Some(asn) = line.strip_prefix("!6") {
            let (_, v6) = self.db.prefixes_of(asn);
            return if v6.is_empty() && self.empty_is_not_found { "D\n".into() } else { data(&v6.join(" ")) };
        }
        if let Some(rest) = line.strip_prefix("!m") {
            let (class, key) = rest.split_once(',').unwrap_or((rest, ""));
            if class == "filter-set" {
                return match self.db.filter_sets.get(&key.to_ascii_uppercase()) {
                    Some(expr) => {
                        let obj = format!("filter-set:     {key}\ndescr:          generated\nmp-filter:      {expr}\ntech-c:         DUMY-RIPE\nadmin-c:        DUMY-RIPE\nmnt-by:         MAINT-TEST\nchanged:        noc@example.net 20240101\nsource:         TEST");
                        if self.duplicate_objects {
                            let obj2 = obj.replace("source:         TEST", "source:         OTHER");
                            data(&format!("{obj}\n\n{obj2}"))
                        } else {
                            data(&obj)
                        }
                    }
                    None => "D\n".into(),
                };
            }
            return "D\n".into();
        }
        "F unsupported query\n".into()
    }
}

#[derive(Debug)]
pub struct IrrStream {
    state: SharedIrrDbg,
    inbuf: Vec<u8>,
    out: VecDeque<u8>,
}

pub struct SharedIrrDbg(pub SharedIrr);
impl std::fmt::Debug for SharedIrrDbg {
    fn fmt(&self, f: &mut std::fmt::Formatter<'_>) -> std::fmt::Result {
        f.write_str("FakeIrrd")
    }
}

impl irrc::SimStream for IrrStream {
    fn write(&mut self, buf: &[u8]) -> std::io::Result<usize> {
        let mut st = self.state.0.lock().unwrap();
        if st.dead {
            return Err(std::io::Error::new(std::io::ErrorKind::BrokenPipe, "FakeIrrd: connection reset"));
        }
        // partial writes
        let n = match (st.seg_mode, &mut st.seg_rng) {
            (0, _) | (_, None) => buf.len(),
            (_, Some(r)) => {
                if r.next() % 4 == 0 && buf.len() > 1 {
                    1 + (r.next() as usize % (buf.len() - 1))
                } else {
                    buf.len()
                }
            }
        };
        if n < buf.len() {
            st.partial_writes += 1;
        }
        self.inbuf.extend_from_slice(&buf[..n]);
        while let Some(p) = self.inbuf.iter().position(|b| *b == b'\n') {
            let line: Vec<u8> = self.inbuf.drain(..=p).collect();
            let line = String::from_utf8_lossy(&line[..line.len() - 1]).into_owned();
            let resp = st.answer(&line);
            st.bytes_out += resp.len();
            self.out.extend(resp.as_bytes());
        }
        crate::core::beat();
        Ok(n)
    }
    fn read(&mut self, buf: &mut [u8]) -> std::io::Result<usize> {
        let mut st = self.state.0.lock().unwrap();
        if st.dead {
            return Err(std::io::Error::new(std::io::ErrorKind::ConnectionReset, "FakeIrrd: connection reset"));
        }
        if buf.is_empty() {
            st.zero_len_reads += 1;
            if st.zero_len_reads > 10_000 {
                // a real socket answers Ok(0) every time: the client would spin for ever
                return Err(std::io::Error::new(std::io::ErrorKind::Other, "FakeIrrd: the client keeps reading into a full buffer"));
            }
            return Ok(0);
        }
        if self.out.is_empty() {
            // a real socket would block for ever: the client reads only when it expects data
            return Err(std::io::Error::new(std::io::ErrorKind::TimedOut, "FakeIrrd: client reads but no response is outstanding"));
        }
        let avail = self.out.len().min(buf.len());
        let n = match (st.seg_mode, &mut st.seg_rng) {
            (0, _) | (_, None) => avail,
            (1, Some(r)) => avail.min(1 + (r.next() as usize % 7)),
            (_, Some(r)) => match r.next() % 3 {
                0 => avail.min(1 + (r.next() as usize % 7)),
                1 => avail.min(1 + (r.next() as usize % 200)),
                _ => avail,
            },
        };
        st.reads += 1;
        if n < avail {
            st.short_reads += 1;
        }
        for b in buf.iter_mut().take(n) {
            *b = self.out.pop_front().unwrap();
        }
        Ok(n)
    }
}

/// Install FakeIrrd as the connector of the vendored irrc for the current thread.
pub fn install(state: SharedIrr) {
    irrc::set_sim_connector(Some(Box::new(move |_addr: &str| {
        let mut st = state.lock().unwrap();
        st.connections += 1;
        if st.refuse {
            return Err(std::io::Error::new(std::io::ErrorKind::ConnectionRefused, "FakeIrrd: connection refused"));
        }
        Ok(Box::new(IrrStream { state: SharedIrrDbg(state.clone()), inbuf: Vec::new(), out: VecDeque::new() }) as Box<dyn irrc::SimStream>)
    })));
}

pub fn uninstall() {
    irrc::set_sim_connector(None);
}

// ---------------------------------------------------------------------------------------------
// reference resolver
// ---------------------------------------------------------------------------------------------

#[derive(Debug)]
pub struct RefError(pub String);
impl std::fmt::Display for RefError {
    fn fmt(&self, f: &mut std::fmt::Formatter<'_>) -> std::fmt::Result {
        f.write_str(&self.0)
    }
}
impl std::error::Error for RefError {}
impl From<EvaluationError> for RefError {
    fn from(e: EvaluationError) -> Self {
        Self(format!("{e}"))
    }
}

pub struct Reference<'d> {
    pub db: &'d Db,
    pub depth: usize,
}

impl<'a> Evaluator<'a> for Reference<'_> {
    type Output<T> = <T as Evaluate<'a, Self>>::Output where T: Evaluate<'a, Self>;
    type Error = RefError;
    fn finalise<T>(&mut self, output: T::Output) -> Result<Self::Output<T>, Self::Error>
    where
        T: Evaluate<'a, Self>,
    {
        Ok(output)
    }
    fn sink_error(&mut self, _: &(dyn std::error::Error + Send + Sync + 'static)) -> bool {
        true
    }
}

fn to_set(prefixes: impl IntoIterator<Item = String>) -> PrefixSet<Any> {
    prefixes.into_iter().filter_map(|p| p.parse::<Prefix<Any>>().ok()).collect()
}

impl Resolver<'_, FilterSet, MpFilterExpr> for Reference<'_> {
    type IError = RefError;
    fn resolve(&mut self, name: &FilterSet) -> Result<MpFilterExpr, RefError> {
        self.depth += 1;
        if self.depth > 64 {
            return Err(RefError("filter-set recursion".into()));
        }
        match self.db.filter_sets.get(&name.to_string().to_ascii_uppercase()) {
            Some(e) => e.parse().map_err(|e| RefError(format!("{e}"))),
            // bgpfu-lib defines an unknown filter-set as the empty filter
            None => "NOT ANY".parse().map_err(|e| RefError(format!("{e}"))),
        }
    }
}

impl Resolver<'_, AsSet, PrefixSet<Any>> for Reference<'_> {
    type IError = RefError;
    fn resolve(&mut self, name: &AsSet) -> Result<PrefixSet<Any>, RefError> {
        if self.db.reset_on_as_set.as_deref().is_some_and(|s| s.eq_ignore_ascii_case(&name.to_string())) {
            return Err(RefError(format!("the IRR connection breaks (io) while the members query of {name} is outstanding")));
        }
        if self.db.broken_as_sets.contains_key(&name.to_string().to_ascii_uppercase()) {
            return Err(RefError(format!("the IRR answers the members query of {name} with an error")));
        }
        let asns = self.db.expand_as_set(&name.to_string()).ok_or_else(|| RefError(format!("as-set {name} does not exist")))?;
        let mut all = Vec::new();
        for a in asns {
            let (v4, v6) = self.db.prefixes_of(&a);
            all.extend(v4);
            all.extend(v6);
        }
        Ok(to_set(all))
    }
}

impl Resolver<'_, RouteSet, PrefixSet<Any>> for Reference<'_> {
    type IError = RefError;
    fn resolve(&mut self, name: &RouteSet) -> Result<PrefixSet<Any>, RefError> {
        // bgpfu-lib sinks the "not found" response of a route-set: the set is then empty
        Ok(to_set(self.db.expand_route_set(&name.to_string()).unwrap_or_default()))
    }
}

impl Resolver<'_, AutNum, PrefixSet<Any>> for Reference<'_> {
    type IError = RefError;
    fn resolve(&mut self, name: &AutNum) -> Result<PrefixSet<Any>, RefError> {
        let (v4, v6) = self.db.prefixes_of(&name.to_string());
        Ok(to_set(v4.into_iter().chain(v6)))
    }
}

impl Resolver<'_, PeerAs, PrefixSet<Any>> for Reference<'_> {
    type IError = RefError;
    fn resolve(&mut self, _: &PeerAs) -> Result<PrefixSet<Any>, RefError> {
        Err(RefError("PeerAS cannot be evaluated without a peering context".into()))
    }
}

/// Does the expression contain a construct the evaluator cannot evaluate (AS-path regular
/// expressions, attribute matches, PeerAS)? Decided on the parsed expression's Debug form.
pub fn unevaluable(expr: &MpFilterExpr) -> bool {
    let d = format!("{expr:?}");
    d.contains("AsPath") || d.contains("AttrMatch") || d.contains("PeerAs")
}

/// Reference evaluation: Ok(sorted range strings "prefix,lower,upper") or Err(reason).
pub fn reference_eval(db: &Db, expr: &str) -> Result<Vec<String>, String> {
    let parsed: MpFilterExpr = expr.parse().map_err(|e| format!("parse: {e}"))?;
    if unevaluable(&parsed) {
        return Err("unevaluable construct".into());
    }
    let mut r = Reference { db, depth: 0 };
    // a filter-set may hold constructs for which rpsl's evaluation is not implemented (it panics)
    let set = std::panic::catch_unwind(std::panic::AssertUnwindSafe(|| <Reference<'_> as Evaluator>::evaluate(&mut r, parsed)))
        .map_err(|_| "unevaluable construct (inside a filter-set)".to_string())?
        .map_err(|e| e.0)?;
    Ok(render_set(&set))
}

pub fn render_set(set: &PrefixSet<Any>) -> Vec<String> {
    use ip::traits::PrefixSet as _;
    let mut v: Vec<String> = set.ranges().map(|r| format!("{r}")).collect();
    v.sort();
    v
}

pub fn describe(db: &Db) -> String {
    let mut s = String::new();
    for (k, v) in &db.as_sets {
        let _ = write!(s, "as-set {k}: {v:?}; ");
    }
    for (k, v) in &db.route_sets {
        let _ = write!(s, "route-set {k}: {v:?}; ");
    }
    for (k, v) in &db.filter_sets {
        let _ = write!(s, "filter-set {k}: {v}; ");
    }
    for (k, (a, b)) in &db.routes {
        let _ = write!(s, "{k}: route {a:?} route6 {b:?}; ");
    }
    s
}

// ---------------------------------------------------------------------------------------------
// FakeIrrd on a loopback TCP socket (for the `bgpfu` executable, which runs as a child process)
// ---------------------------------------------------------------------------------------------

/// Serve `state` on 127.0.0.1:<ephemeral port> until `stop` is set. Returns the port and the
/// server thread. Responses are written in seeded pieces (`seg_rng`), queries are answered as
/// they are parsed, so pipelined queries work like on a real IRRd.
pub fn serve_tcp(state: SharedIrr, stop: Arc<std::sync::atomic::AtomicBool>) -> std::io::Result<(u16, std::thread::JoinHandle<()>)> {
    use std::io::{Read, Write};
    use std::sync::atomic::Ordering;
    let listener = std::net::TcpListener::bind("127.0.0.1:0")?;
    listener.set_nonblocking(true)?;
    let port = listener.local_addr()?.port();
    let t = std::thread::spawn(move || {
        while !stop.load(Ordering::Relaxed) {
            let (mut sock, _) = match listener.accept() {
                Ok(x) => x,
                Err(e) if e.kind() == std::io::ErrorKind::WouldBlock => {
                    std::thread::sleep(std::time::Duration::from_millis(1));
                    continue;
                }
                Err(_) => break,
            };
            let _ = sock.set_nonblocking(false);
            let _ = sock.set_nodelay(true);
            let _ = sock.set_read_timeout(Some(std::time::Duration::from_millis(50)));
            {
                let mut st = state.lock().unwrap();
                st.connections += 1;
                if st.refuse {
                    continue; // dropped: the client sees EOF / reset
                }
            }
            let mut inbuf: Vec<u8> = Vec::new();
            let mut buf = [0u8; 4096];
            'conn: loop {
                if stop.load(Ordering::Relaxed) {
                    // the client is gone: whatever it had still written is in the socket buffer; record those
                    // queries too, so that the list of queries does not depend on when the stop came
                    let _ = sock.set_nonblocking(true);
                    while let Ok(n) = sock.read(&mut buf) {
                        if n == 0 {
                            break;
                        }
                        inbuf.extend_from_slice(&buf[..n]);
                    }
                    while let Some(p) = inbuf.iter().position(|b| *b == b'\n') {
                        let line: Vec<u8> = inbuf.drain(..=p).collect();
                        let line = String::from_utf8_lossy(&line[..line.len() - 1]).into_owned();
                        let _ = state.lock().unwrap().answer(line.trim_end_matches('\r'));
                    }
                    break;
                }
                let n = match sock.read(&mut buf) {
                    Ok(0) => break,
                    Ok(n) => n,
                    Err(e) if matches!(e.kind(), std::io::ErrorKind::WouldBlock | std::io::ErrorKind::TimedOut) => continue,
                    Err(_) => break,
                };
                inbuf.extend_from_slice(&buf[..n]);
                while let Some(p) = inbuf.iter().position(|b| *b == b'\n') {
                    let line: Vec<u8> = inbuf.drain(..=p).collect();
                    let line = String::from_utf8_lossy(&line[..line.len() - 1]).into_owned();
                    let (resp, quit, dead, pieces) = {
                        let mut st = state.lock().unwrap();
                        let resp = st.answer(line.trim_end_matches('\r'));
                        st.bytes_out += resp.len();
                        // cut the response into seeded pieces
                        let mut cuts = Vec::new();
                        if let (m, Some(r)) = (st.seg_mode, &mut st.seg_rng) {
                            if m != 0 && resp.len() > 1 {
                                for _ in 0..(r.next() % 4) {
                                    cuts.push(1 + (r.next() as usize % (resp.len() - 1)));
                                }
                            }
                        }
                        cuts.sort_unstable();
                        cuts.dedup();
                        (resp, line == "!q", st.dead, cuts)
                    };
                    if dead {
                        // connection reset: SO_LINGER 0 makes close() send RST
                        let _ = sock.shutdown(std::net::Shutdown::Both);
                        break 'conn;
                    }
                    let mut at = 0;
                    for c in pieces.into_iter().chain(std::iter::once(resp.len())) {
                        if sock.write_all(&resp.as_bytes()[at..c]).is_err() {
                            break 'conn;
                        }
                        let _ = sock.flush();
                        at = c;
                    }
                    if quit {
                        break 'conn;
                    }
                }
            }
        }
    });
    Ok((port, t))
}
