//! Batch driver: process-parallel workers, aggregation, determinism rechecks, minimisation,
//! replay files, known findings, evidence.

use std::collections::{BTreeMap, BTreeSet, HashSet};
use std::io::Write;
use std::path::{Path, PathBuf};
use std::process::{Command, Stdio};
use std::sync::atomic::Ordering;
use std::sync::{Arc, Mutex};
use std::time::{Duration, Instant};

use serde_json::{json, Value};

use crate::core::{execute, execute_id, fnv, mix, run_seed, Outcome, PropSpec, RunId, Tape, Tier, Verdict, HEARTBEAT};

pub const VERIF_DIR: &str = "/verif";

pub fn base_seed() -> u64 {
    std::env::var("VERIF_SEED").ok().and_then(|s| s.trim().parse::<i128>().ok()).map_or(20_260_926, |v| v as u64)
}

pub fn jobs() -> usize {
    std::env::var("VERIF_JOBS").ok().and_then(|s| s.parse().ok()).unwrap_or(16).max(1)
}

fn run_id_json(id: &RunId) -> Value {
    match id {
        RunId::Seeded { index } => json!({"kind": "seeded", "index": index}),
        RunId::Enumerated { index } => json!({"kind": "enumerated", "index": index}),
    }
}

fn run_id_from(v: &Value) -> RunId {
    let index = v["index"].as_u64().unwrap_or(0);
    if v["kind"] == "enumerated" {
        RunId::Enumerated { index }
    } else {
        RunId::Seeded { index }
    }
}

fn run_id_label(id: &RunId) -> String {
    match id {
        RunId::Seeded { index } => format!("seeded#{index}"),
        RunId::Enumerated { index } => format!("enumerated#{index}"),
    }
}

// ---------------------------------------------------------------------------------------------
// worker
// ---------------------------------------------------------------------------------------------

#[derive(Default)]
struct Acc {
    runs: u64,
    violations: Vec<Value>,
    classes: BTreeMap<String, u64>,
    nontrivial: HashSet<u64>,
    all: HashSet<u64>,
    counters: BTreeMap<String, u64>,
    notes: BTreeMap<String, u64>,
    sim_time_ns: u128,
    /// (kind, index, event-log hash, the run ended in a violation)
    rechecks: Vec<(String, u64, u64, bool)>,
    first_nontrivial: Vec<Value>,
}

impl Acc {
    fn to_json(&self, stripe: usize, aborted_at: Option<&RunId>, stuck: bool) -> Value {
        json!({
            "stripe": stripe,
            "runs": self.runs,
            "violations": self.violations,
            "classes": self.classes,
            "nontrivial": self.nontrivial.iter().collect::<Vec<_>>(),
            "all": self.all.iter().collect::<Vec<_>>(),
            "counters": self.counters,
            "notes": self.notes,
            "sim_time_ns": self.sim_time_ns.to_string(),
            "rechecks": self.rechecks,
            "first_nontrivial": self.first_nontrivial,
            "aborted_at": aborted_at.map(run_id_json),
            "stuck": stuck,
        })
    }
}

fn plan_for_stripe(spec: &PropSpec, tier: Tier, stripe: usize, jobs: usize) -> Vec<(RunId, bool)> {
    // (id, is_recheck)
    let mut v = Vec::new();
    let en = (spec.enumerated)(tier);
    let n = (spec.runs)(tier);
    let mine = |i: u64| (i % jobs as u64) as usize == stripe;
    // rechecks: every 97th index of the *previous* stripe is also executed here
    let prev = (stripe + jobs - 1) % jobs;
    let theirs = |i: u64| (i % jobs as u64) as usize == prev && (i / jobs as u64) % 97 == 3;
    for i in 0..en {
        if mine(i) {
            v.push((RunId::Enumerated { index: i }, false));
        } else if jobs > 1 && theirs(i) {
            v.push((RunId::Enumerated { index: i }, true));
        }
    }
    for i in 0..n {
        if mine(i) {
            v.push((RunId::Seeded { index: i }, false));
        } else if jobs > 1 && theirs(i) {
            v.push((RunId::Seeded { index: i }, true));
        }
    }
    v
}

pub fn worker(spec: &'static PropSpec, tier: Tier, seed: u64, stripe: usize, jobs: usize, skip: usize, out: &Path) -> i32 {
    let plan = plan_for_stripe(spec, tier, stripe, jobs);
    let acc = Arc::new(Mutex::new(Acc::default()));
    let current: Arc<Mutex<Option<(usize, RunId)>>> = Arc::new(Mutex::new(None));
    // monitor thread
    {
        let (acc, current, out) = (acc.clone(), current.clone(), out.to_path_buf());
        let watchdog = Duration::from_secs(spec.watchdog_s);
        let stuck_is_verdict = spec.stuck_is_verdict;
        let spec_id = spec.id;
        std::thread::spawn(move || {
            let mut last = HEARTBEAT.load(Ordering::Relaxed);
            let mut since = Instant::now();
            loop {
                std::thread::sleep(Duration::from_millis(100));
                let now = HEARTBEAT.load(Ordering::Relaxed);
                if now != last {
                    last = now;
                    since = Instant::now();
                    continue;
                }
                if since.elapsed() < watchdog {
                    continue;
                }
                let cur = current.lock().unwrap().clone();
                let Some((pos, id)) = cur else {
                    since = Instant::now();
                    continue;
                };
                let mut a = acc.lock().unwrap();
                let polls = crate::rsim::POLLS.load(Ordering::Relaxed);
                std::thread::sleep(Duration::from_millis(200));
                let polls2 = crate::rsim::POLLS.load(Ordering::Relaxed);
                let kind = if polls2 != polls { "yielding" } else { "non-yielding" };
                if stuck_is_verdict {
                    let what = crate::rsim::current_scenario();
                    // e.g. spin/tls/close_notify+FIN: transport and first word of the scenario label
                    let class = match what.split(' ').next() {
                        Some(w) if !w.is_empty() => format!("spin/{w}"),
                        _ => "spin".to_string(),
                    };
                    *a.classes.entry(class.clone()).or_insert(0) += 1;
                    a.violations.push(json!({
                        "id": run_id_json(&id), "class": class,
                        "detail": format!("{what}: no virtual-time heartbeat for {}s of real time ({kind} spin): the client neither completes nor blocks", watchdog.as_secs()),
                        "tape": Value::Null, "hash_seed": 0, "stuck": true,
                    }));
                    a.runs += 1;
                }
                let _ = pos;
                let j = a.to_json(stripe, Some(&id), true);
                let _ = std::fs::write(&out, serde_json::to_vec(&j).unwrap());
                eprintln!("[{spec_id} worker {stripe}] run {} stuck ({kind}); worker exits", run_id_label(&id));
                std::process::exit(3);
            }
        });
    }
    for (pos, (id, recheck)) in plan.iter().enumerate() {
        if pos < skip {
            continue;
        }
        *current.lock().unwrap() = Some((pos, id.clone()));
        let o = execute_id(spec, seed, tier, id, false);
        *current.lock().unwrap() = None;
        let mut a = acc.lock().unwrap();
        let (k, i) = match id {
            RunId::Seeded { index } => ("seeded", *index),
            RunId::Enumerated { index } => ("enumerated", *index),
        };
        if *recheck {
            a.rechecks.push((k.to_string(), i, o.log_hash, matches!(o.verdict, Verdict::Violation { .. })));
            continue;
        }
        if (i / jobs as u64) % 97 == 3 {
            a.rechecks.push((k.to_string(), i, o.log_hash, matches!(o.verdict, Verdict::Violation { .. })));
        }
        a.runs += 1;
        a.sim_time_ns += u128::from(o.sim_time_ns);
        for (k, v) in &o.counters {
            *a.counters.entry(k.clone()).or_insert(0) += v;
        }
        for (k, v) in &o.notes {
            *a.notes.entry(k.clone()).or_insert(0) += v;
        }
        a.all.insert(o.log_hash);
        if o.nontrivial {
            if a.nontrivial.insert(o.log_hash) && a.first_nontrivial.len() < 2 {
                a.first_nontrivial.push(run_id_json(id));
            }
        }
        if let Verdict::Violation { class, detail } = &o.verdict {
            let c = a.classes.entry(class.clone()).or_insert(0);
            *c += 1;
            if *c <= 3 {
                let s = match id {
                    RunId::Seeded { index } => run_seed(seed, spec.id, tier, *index),
                    RunId::Enumerated { index } => run_seed(seed ^ 0xE, spec.id, tier, *index),
                };
                a.violations.push(json!({
                    "id": run_id_json(id), "class": class, "detail": detail,
                    "tape": o.tape, "hash_seed": mix(s, 0x5eed), "stuck": false,
                }));
            }
        }
    }
    let a = acc.lock().unwrap();
    std::fs::write(out, serde_json::to_vec(&a.to_json(stripe, None, false)).unwrap()).expect("write worker result");
    0
}

// ---------------------------------------------------------------------------------------------
// known findings
// ---------------------------------------------------------------------------------------------

#[derive(Clone, Debug)]
pub struct Known {
    pub property: String,
    pub class: String,
    pub matches: Option<String>,
    pub status: String,
    pub what: String,
}

pub fn load_known() -> Vec<Known> {
    let p = Path::new(VERIF_DIR).join("known_findings.json");
    let Ok(s) = std::fs::read_to_string(p) else { return Vec::new() };
    let v: Value = serde_json::from_str(&s).expect("known_findings.json is not valid JSON");
    v["findings"]
        .as_array()
        .cloned()
        .unwrap_or_default()
        .iter()
        .map(|f| Known {
            property: f["property"].as_str().unwrap_or("").into(),
            class: f["class"].as_str().unwrap_or("").into(),
            matches: f["match"].as_str().map(Into::into),
            status: f["status"].as_str().unwrap_or("known").into(),
            what: f["what"].as_str().unwrap_or("").into(),
        })
        .collect()
}

fn known_for<'a>(known: &'a [Known], prop: &str, class: &str, detail: &str) -> Option<&'a Known> {
    known.iter().find(|k| {
        k.status == "known" && k.property == prop && k.class == class && k.matches.as_deref().map_or(true, |m| detail.contains(m))
    })
}

// ---------------------------------------------------------------------------------------------
// minimiser
// ---------------------------------------------------------------------------------------------

pub struct Repro {
    pub tape: Vec<u32>,
    pub hash_seed: u64,
    pub enum_index: Option<u64>,
}

fn same_class(o: &Outcome, class: &str) -> bool {
    matches!(&o.verdict, Verdict::Violation { class: c, .. } if c == class)
}

/// Hypothesis-style tape shrinking: delete blocks, zero, lower — as long as the same violation
/// class persists.
pub fn minimise(spec: &'static PropSpec, tier: Tier, r: &Repro, class: &str, budget_runs: usize, budget: Duration) -> (Vec<u32>, usize) {
    let t0 = Instant::now();
    let mut best = r.tape.clone();
    let mut tried = 0usize;
    let mut attempt = |cand: &Vec<u32>, tried: &mut usize| -> Option<Vec<u32>> {
        if *tried >= budget_runs || t0.elapsed() > budget {
            return None;
        }
        *tried += 1;
        let o = execute(spec, Tape::from_tape(cand.clone()), tier, r.enum_index, r.hash_seed, false);
        // normalise to what was actually consumed
        same_class(&o, class).then_some(o.tape)
    };
    // first: normalise
    let smaller = |a: &Vec<u32>, b: &Vec<u32>| (a.len(), a) < (b.len(), b);
    if let Some(t) = attempt(&best, &mut tried) {
        if !smaller(&best, &t) {
            best = t;
        }
    } else {
        return (best, tried);
    }
    let out_of_budget = |tried: usize| tried >= budget_runs || t0.elapsed() > budget;
    loop {
        let before = best.clone();
        // truncate tail (an exhausted tape reads as zeros)
        let mut cut = best.len() / 2;
        while cut > 0 && cut < best.len() && !out_of_budget(tried) {
            let cand: Vec<u32> = best[..cut].to_vec();
            match attempt(&cand, &mut tried) {
                Some(t) if smaller(&t, &best) => {
                    best = t;
                    cut = best.len() / 2;
                }
                _ => cut += (best.len() - cut + 1) / 2,
            }
        }
        // delete blocks
        for size in [16usize, 8, 4, 2, 1] {
            let mut i = 0;
            while i + size <= best.len() && !out_of_budget(tried) {
                let mut cand = best.clone();
                cand.drain(i..i + size);
                match attempt(&cand, &mut tried) {
                    Some(t) if smaller(&t, &best) => best = t,
                    _ => i += 1,
                }
            }
        }
        // zero, then lower entries
        let mut i = 0;
        while i < best.len() && !out_of_budget(tried) {
            if best[i] != 0 {
                let mut cand = best.clone();
                cand[i] = 0;
                let mut zeroed = false;
                if let Some(t) = attempt(&cand, &mut tried) {
                    if smaller(&t, &best) {
                        best = t;
                        zeroed = true;
                    }
                }
                if !zeroed {
                    let mut lo = 0u32;
                    let mut hi = best[i];
                    while lo + 1 < hi && i < best.len() && !out_of_budget(tried) {
                        let mid = lo + (hi - lo) / 2;
                        let mut cand = best.clone();
                        cand[i] = mid;
                        match attempt(&cand, &mut tried) {
                            Some(t) if smaller(&t, &best) => {
                                best = t;
                                hi = mid;
                            }
                            _ => lo = mid,
                        }
                    }
                }
            }
            i += 1;
        }
        if best == before || out_of_budget(tried) {
            break;
        }
    }
    (best, tried)
}

// ---------------------------------------------------------------------------------------------
// replay files
// ---------------------------------------------------------------------------------------------

pub fn write_replay(spec: &PropSpec, tier: Tier, seed: u64, id: &RunId, tape: &[u32], hash_seed: u64, enum_index: Option<u64>, class: &str, detail: &str, trace: &[String], log_hash: u64, original_len: usize, stuck: bool) -> PathBuf {
    let dir = Path::new(VERIF_DIR).join("replays");
    let _ = std::fs::create_dir_all(&dir);
    let name = format!("{}-{}-{}-{}.json", spec.id, seed, run_id_label(id).replace('#', ""), fnv(class.as_bytes()) % 100_000);
    let p = dir.join(name);
    let j = json!({
        "property": spec.id, "simulator": spec.simulator, "tier": tier.as_str(), "verif_seed": seed,
        "run": run_id_json(id), "stuck": stuck,
        "tape": if stuck { Value::Null } else { json!(tape) }, "hash_seed": hash_seed, "enum_index": enum_index,
        "class": class, "detail": detail, "log_hash": log_hash,
        "original_tape_len": original_len, "minimised_tape_len": tape.len(),
        "trace": trace,
    });
    std::fs::write(&p, serde_json::to_vec_pretty(&j).unwrap()).expect("write replay");
    p
}

/// Re-execute a replay file in this (fresh) process. Exit code 1 if the violation reproduces.
pub fn replay(path: &Path, lookup: fn(&str) -> Option<&'static PropSpec>) -> i32 {
    let v: Value = match std::fs::read_to_string(path).ok().and_then(|s| serde_json::from_str(&s).ok()) {
        Some(v) => v,
        None => {
            eprintln!("cannot read replay file {}", path.display());
            return 2;
        }
    };
    let Some(spec) = lookup(v["property"].as_str().unwrap_or("")) else { return 2 };
    let tier = Tier::parse(v["tier"].as_str().unwrap_or("quick")).unwrap_or(Tier::Quick);
    let class = v["class"].as_str().unwrap_or("").to_string();
    let o = if v["stuck"].as_bool().unwrap_or(false) {
        // replay by seed in this process, under the same watchdog as a worker
        let id = run_id_from(&v["run"]);
        let seed = v["verif_seed"].as_u64().unwrap_or(0);
        let watchdog = Duration::from_secs(spec.watchdog_s);
        let spec_id = spec.id;
        let p = path.display().to_string();
        std::thread::spawn(move || {
            let mut last = HEARTBEAT.load(Ordering::Relaxed);
            let mut since = Instant::now();
            loop {
                std::thread::sleep(Duration::from_millis(100));
                let now = HEARTBEAT.load(Ordering::Relaxed);
                if now != last {
                    last = now;
                    since = Instant::now();
                } else if since.elapsed() >= watchdog {
                    println!("replay: class=spin/{} (no heartbeat for {}s) — reproduced", crate::rsim::current_scenario().split(' ').next().unwrap_or(""), watchdog.as_secs());
                    println!("VIOLATION property={spec_id} replay={p}");
                    std::process::exit(1);
                }
            }
        });
        execute_id(spec, seed, tier, &id, true)
    } else {
        let tape: Vec<u32> = v["tape"].as_array().map(|a| a.iter().map(|x| x.as_u64().unwrap_or(0) as u32).collect()).unwrap_or_default();
        execute(spec, Tape::from_tape(tape), tier, v["enum_index"].as_u64(), v["hash_seed"].as_u64().unwrap_or(0), true)
    };
    if let Some(t) = &o.trace {
        for l in t {
            println!("  | {l}");
        }
    }
    println!("replay: log_hash={} (recorded {})", o.log_hash, v["log_hash"]);
    match &o.verdict {
        Verdict::Violation { class: c, detail } => {
            println!("replay: class={c} detail={detail}");
            if *c == class {
                if v["log_hash"].as_u64() == Some(o.log_hash) || v["stuck"].as_bool().unwrap_or(false) {
                    println!("replay: reproduced exactly");
                } else {
                    println!("replay: same violation class, different event log");
                }
                println!("VIOLATION property={} replay={}", spec.id, path.display());
                1
            } else {
                println!("replay: a different violation class than recorded ({class})");
                1
            }
        }
        Verdict::Pass => {
            println!("replay: run passes (recorded class {class})");
            0
        }
    }
}

// ---------------------------------------------------------------------------------------------
// check = build is done by check.sh; this runs the batch and writes evidence
// ---------------------------------------------------------------------------------------------

pub fn check(spec: &'static PropSpec, tier: Tier) -> i32 {
    let t0 = Instant::now();
    let seed = base_seed();
    let jobs = jobs();
    let exe = std::env::current_exe().expect("current exe");
    let scratch = Path::new(VERIF_DIR).join("target").join(format!("run-{}-{}", spec.id, std::process::id()));
    let _ = std::fs::create_dir_all(&scratch);
    println!("[{}] tier={} VERIF_SEED={} jobs={} seeded_runs={} enumerated={}", spec.id, tier.as_str(), seed, jobs, (spec.runs)(tier), (spec.enumerated)(tier));
    std::io::stdout().flush().ok();

    // spawn workers; respawn a stripe that aborted on a stuck run
    let mut results: Vec<Value> = Vec::new();
    let mut harness_error: Option<String> = None;
    let mut pending: Vec<(usize, usize, usize)> = (0..jobs).map(|k| (k, 0usize, 0usize)).collect(); // (stripe, skip, generation)
    let plan_lens: Vec<usize> = (0..jobs).map(|k| plan_for_stripe(spec, tier, k, jobs).len()).collect();
    while !pending.is_empty() {
        let mut children = Vec::new();
        for (k, skip, gen) in pending.drain(..) {
            let out = scratch.join(format!("w{k}-{gen}.json"));
            let child = Command::new(&exe)
                .args(["worker", spec.id, tier.as_str(), &seed.to_string(), &k.to_string(), &jobs.to_string(), &skip.to_string()])
                .arg(&out)
                .stdin(Stdio::null())
                .spawn()
                .expect("spawn worker");
            children.push((k, skip, gen, out, child));
        }
        for (k, skip, gen, out, mut child) in children {
            let status = child.wait().expect("wait worker");
            let v: Option<Value> = std::fs::read(&out).ok().and_then(|b| serde_json::from_slice(&b).ok());
            match (status.code(), v) {
                (Some(0), Some(v)) => results.push(v),
                (Some(3), Some(v)) => {
                    // stuck run: resume after it
                    let plan = plan_for_stripe(spec, tier, k, jobs);
                    let at = run_id_from(&v["aborted_at"]);
                    let pos = plan.iter().position(|(id, _)| run_id_label(id) == run_id_label(&at)).unwrap_or(plan_lens[k]);
                    if !spec.stuck_is_verdict {
                        harness_error = Some(format!("worker {k} stuck at {} (not a verdict for this property)", run_id_label(&at)));
                    }
                    results.push(v);
                    let _ = skip;
                    if pos + 1 < plan_lens[k] && gen < 200 {
                        pending.push((k, pos + 1, gen + 1));
                    }
                }
                (code, _) => {
                    harness_error = Some(format!("worker {k} exited with {code:?} without a result"));
                }
            }
        }
    }

    // aggregate
    let mut runs = 0u64;
    let mut classes: BTreeMap<String, u64> = BTreeMap::new();
    let mut nontrivial: BTreeSet<u64> = BTreeSet::new();
    let mut all: BTreeSet<u64> = BTreeSet::new();
    let mut counters: BTreeMap<String, u64> = BTreeMap::new();
    let mut notes: BTreeMap<String, u64> = BTreeMap::new();
    let mut sim_time_ns: u128 = 0;
    let mut rechecks: BTreeMap<(String, u64), Vec<(u64, bool)>> = BTreeMap::new();
    let mut violations: Vec<Value> = Vec::new();
    let mut sample_ids: Vec<Value> = Vec::new();
    for r in &results {
        runs += r["runs"].as_u64().unwrap_or(0);
        for (k, v) in r["classes"].as_object().into_iter().flatten() {
            *classes.entry(k.clone()).or_insert(0) += v.as_u64().unwrap_or(0);
        }
        for h in r["nontrivial"].as_array().into_iter().flatten() {
            nontrivial.insert(h.as_u64().unwrap_or(0));
        }
        for h in r["all"].as_array().into_iter().flatten() {
            all.insert(h.as_u64().unwrap_or(0));
        }
        for (k, v) in r["counters"].as_object().into_iter().flatten() {
            *counters.entry(k.clone()).or_insert(0) += v.as_u64().unwrap_or(0);
        }
        for (k, v) in r["notes"].as_object().into_iter().flatten() {
            *notes.entry(k.clone()).or_insert(0) += v.as_u64().unwrap_or(0);
        }
        sim_time_ns += r["sim_time_ns"].as_str().and_then(|s| s.parse::<u128>().ok()).unwrap_or(0);
        for rc in r["rechecks"].as_array().into_iter().flatten() {
            rechecks.entry((rc[0].as_str().unwrap_or("").to_string(), rc[1].as_u64().unwrap_or(0))).or_default().push((rc[2].as_u64().unwrap_or(0), rc[3].as_bool().unwrap_or(false)));
        }
        for v in r["violations"].as_array().into_iter().flatten() {
            violations.push(v.clone());
        }
        for s in r["first_nontrivial"].as_array().into_iter().flatten() {
            if sample_ids.len() < 3 {
                sample_ids.push(s.clone());
            }
        }
    }
    let mut recheck_pairs = 0u64;
    let mut nondeterministic_violations = 0u64;
    for ((k, i), hs) in &rechecks {
        if hs.len() >= 2 {
            recheck_pairs += 1;
            if hs.iter().any(|h| h.0 != hs[0].0) {
                if hs.iter().any(|h| h.1) {
                    // a VIOLATING run that differs between two workers: the code under test reached a state
                    // whose continuation depends on something outside the simulation (which of two readers
                    // the kernel wakes first, say). That is reported with the violation, not as a harness error.
                    nondeterministic_violations += 1;
                } else {
                    harness_error = Some(format!("nondeterminism: run {k}#{i} produced different event logs in two workers ({:?})", hs.iter().map(|h| h.0).collect::<Vec<_>>()));
                }
            }
        }
    }

    // violations: known vs new; minimise one per class
    let known = load_known();
    let mut printed_known: BTreeSet<String> = BTreeSet::new();
    let mut new_violation_lines: Vec<String> = Vec::new();
    let mut minimised_samples: Vec<Value> = Vec::new();
    let mut seen_new_class: BTreeSet<String> = BTreeSet::new();
    violations.sort_by_key(|v| (v["class"].as_str().unwrap_or("").to_string(), v["tape"].as_array().map_or(0, Vec::len)));
    for v in &violations {
        let class = v["class"].as_str().unwrap_or("").to_string();
        let detail = v["detail"].as_str().unwrap_or("").to_string();
        if class == "harness-panic" || class == "harness-error" {
            harness_error = Some(format!("{class}: {detail}"));
            continue;
        }
        if let Some(k) = known_for(&known, spec.id, &class, &detail) {
            let key = format!("{}|{}|{:?}", k.property, k.class, k.matches);
            if printed_known.insert(key) {
                println!("KNOWN-FINDING: property={} class={} {}", spec.id, class, k.what);
            }
            continue;
        }
        let dedup = format!("{class}");
        if !seen_new_class.insert(dedup) {
            continue;
        }
        let id = run_id_from(&v["id"]);
        let stuck = v["stuck"].as_bool().unwrap_or(false);
        let path = if stuck {
            write_replay(spec, tier, seed, &id, &[], 0, None, &class, &detail, &[], 0, 0, true)
        } else {
            let tape: Vec<u32> = v["tape"].as_array().map(|a| a.iter().map(|x| x.as_u64().unwrap_or(0) as u32).collect()).unwrap_or_default();
            let hash_seed = v["hash_seed"].as_u64().unwrap_or(0);
            let enum_index = match id {
                RunId::Enumerated { index } => Some(index),
                RunId::Seeded { .. } => None,
            };
            let r = Repro { tape: tape.clone(), hash_seed, enum_index };
            let (min_tape, tried) = minimise(spec, tier, &r, &class, 1500, Duration::from_secs(25));
            let o = execute(spec, Tape::from_tape(min_tape.clone()), tier, enum_index, hash_seed, true);
            let (det, tr) = match &o.verdict {
                Verdict::Violation { detail, .. } => (detail.clone(), o.trace.clone().unwrap_or_default()),
                Verdict::Pass => (detail.clone(), Vec::new()),
            };
            println!("[{}] violation class={class}: tape {} -> {} entries after {tried} shrink runs", spec.id, tape.len(), min_tape.len());
            minimised_samples.push(json!({"class": class, "detail": det, "minimised_trace": tr.iter().take(60).collect::<Vec<_>>()}));
            write_replay(spec, tier, seed, &id, &o.tape, hash_seed, enum_index, &class, &det, &tr, o.log_hash, tape.len(), false)
        };
        println!("  detail: {detail}");
        new_violation_lines.push(format!("VIOLATION property={} replay={}", spec.id, path.display()));
    }
    // a class counts as known when every stored sample of it matched a known finding
    let total_violations: u64 = classes.values().sum();
    let unknown_total: u64 = classes.iter().filter(|(c, _)| seen_new_class.contains(*c)).map(|(_, n)| *n).sum();
    let known_count = total_violations - unknown_total;
    let unknown_count = unknown_total;

    // samples for evidence: re-run a couple of non-trivial runs with a trace
    let mut samples: Vec<Value> = Vec::new();
    for s in &sample_ids {
        let id = run_id_from(s);
        let o = execute_id(spec, seed, tier, &id, true);
        samples.push(json!({"run": run_id_label(&id), "verdict": format!("{:?}", o.verdict), "tape_len": o.tape.len(),
            "trace": o.trace.unwrap_or_default().into_iter().take(40).collect::<Vec<_>>() }));
    }
    if samples.is_empty() {
        let id = if (spec.enumerated)(tier) > 0 { RunId::Enumerated { index: 0 } } else { RunId::Seeded { index: 0 } };
        let o = execute_id(spec, seed, tier, &id, true);
        samples.push(json!({"run": run_id_label(&id), "verdict": format!("{:?}", o.verdict), "tape_len": o.tape.len(),
            "trace": o.trace.unwrap_or_default().into_iter().take(40).collect::<Vec<_>>() }));
    }
    samples.extend(minimised_samples);

    let wall = t0.elapsed().as_secs_f64();
    let zero_probes: Vec<&String> = counters.iter().filter(|(k, v)| k.starts_with("probe.") && **v == 0).map(|(k, _)| k).collect();
    for p in &zero_probes {
        eprintln!("[{}] warning: probe {p} never hit", spec.id);
    }
    let evidence = json!({
        "property_id": spec.id,
        "tier": tier.as_str(),
        "seed": (seed & 0x7fff_ffff_ffff_ffff) as i64,
        "level": spec.level,
        "coverage": {
            "evaluations": runs,
            "distinct_nontrivial": nontrivial.len(),
            "distinct_event_logs": all.len(),
            "event_log_digest": all.iter().fold(0u64, |a, h| a.wrapping_add(mix(*h, 0x10c))).to_string(),
            "rule": spec.rule,
            "samples": samples,
            "exhaustive": false,
            "enumerated_scenarios": (spec.enumerated)(tier),
            "seeded_runs": (spec.runs)(tier),
            "simulator": spec.simulator,
            "runs_per_hour": if wall > 0.0 { (runs as f64 / wall * 3600.0) as u64 } else { 0 },
            "simulated_time_s": (sim_time_ns / 1_000_000) as f64 / 1000.0,
            "faults_and_probes_fired": counters,
            "observations_not_violations": notes,
            "determinism_rechecks": recheck_pairs,
            "violating_runs_that_differed_between_two_workers": nondeterministic_violations,
            "components": spec.components.iter().map(|(k, v)| json!({"component": k, "status": v})).collect::<Vec<_>>(),
            "violation_classes": classes,
            "known_finding_hits": known_count,
            "workers": jobs,
        },
        "assumptions": spec.assumptions,
        "wall_s": (wall * 100.0).round() / 100.0,
        "violations": unknown_count,
    });
    let evdir = Path::new(VERIF_DIR).join("evidence");
    let _ = std::fs::create_dir_all(&evdir);
    std::fs::write(evdir.join(format!("{}.json", spec.id)), serde_json::to_vec_pretty(&evidence).unwrap()).expect("write evidence");
    let _ = std::fs::remove_dir_all(&scratch);

    println!(
        "[{}] runs={} distinct_nontrivial={} distinct_logs={} violations={} (known {}) rechecks={} wall={:.1}s",
        spec.id, runs, nontrivial.len(), all.len(), total_violations, known_count, recheck_pairs, wall
    );
    // violations that were found are reported even when the batch also met a harness error (a stuck
    // run of a property for which that is no verdict, say): the error is printed next to them
    if !new_violation_lines.is_empty() {
        for l in new_violation_lines {
            println!("{l}");
        }
        if let Some(e) = harness_error {
            println!("HARNESS-ERROR property={} {e} (reported in addition to the violations above)", spec.id);
        }
        return 1;
    }
    if let Some(e) = harness_error {
        println!("HARNESS-ERROR property={} {e}", spec.id);
        return 2;
    }
    if runs == 0 {
        println!("HARNESS-ERROR property={} no runs executed", spec.id);
        return 2;
    }
    0
}

/// Determinism sweep: `n` seeds, each executed twice in this process and compared; also prints a
/// digest so that two invocations (different worker counts / processes) can be diffed.
pub fn determinism(spec: &'static PropSpec, tier: Tier, n: u64) -> i32 {
    let seed = base_seed();
    let mut digest = 0u64;
    let mut bad = 0;
    for i in 0..n {
        let id = RunId::Seeded { index: i };
        let a = execute_id(spec, seed, tier, &id, false);
        let b = execute_id(spec, seed, tier, &id, false);
        if a.log_hash != b.log_hash || a.tape != b.tape {
            bad += 1;
            println!("DIVERGENCE {} run {i}: {} vs {}", spec.id, a.log_hash, b.log_hash);
        }
        digest = mix(digest, a.log_hash);
    }
    println!("determinism {} n={n} divergences={bad} digest={digest}", spec.id);
    i32::from(bad > 0) * 2
}
