//! C09: requests use only what the advertised capabilities permit — S-sim.
//!
//! Soundness is judged on the *content that reaches the wire* (parsed by the harness), against a
//! table transcribed from RFC 6241 section 8; completeness on the intended content.

use std::collections::BTreeSet;
use std::sync::{Arc, Mutex};
use std::time::Duration;

use netconf::message::rpc::operation::{
    edit_config::{DefaultOperation, ErrorOption, TestOption},
    junos::{
        load_configuration::{Config, Merge, Xml},
        CloseConfiguration, CommitConfiguration, LoadConfiguration, LockConfiguration, OpenConfiguration, UnlockConfiguration,
    },
    Builder, CancelCommit, Commit, CopyConfig, Datastore, DeleteConfig, DiscardChanges, EditConfig, Filter, Get, GetConfig, KillSession, Lock, Opaque, Token, Unlock,
    Validate,
};
use netconf::{Error, Session};

use crate::core::{Ctx, PropSpec, Tier, Verdict};
use crate::ev;
use crate::ssim::{drive, hello_with, reply, Quiescence, SchedCfg, Server, SimTransport, CAP_BASE10, CAP_JUNOS};
use crate::xml::Elem;

const URI_PREFIX: &str = "urn:ietf:params:netconf:capability:";
const SIMPLE_CAPS: [(&str, &str); 9] = [
    ("writable-running", "writable-running:1.0"),
    ("candidate", "candidate:1.0"),
    ("cc10", "confirmed-commit:1.0"),
    ("cc11", "confirmed-commit:1.1"),
    ("rollback", "rollback-on-error:1.0"),
    ("val10", "validate:1.0"),
    ("val11", "validate:1.1"),
    ("startup", "startup:1.0"),
    ("xpath", "xpath:1.0"),
];
const SCHEMES: [&str; 4] = ["file", "ftp", "http", "https"];

/// requirement in conjunctive normal form over capability tokens
type Cnf = Vec<Vec<String>>;

fn any(xs: &[&str]) -> Vec<String> {
    xs.iter().map(|s| (*s).to_string()).collect()
}

#[derive(Clone, Copy, Debug, PartialEq, Eq)]
enum Ds {
    Running,
    Candidate,
    Startup,
}

impl Ds {
    fn lib(self) -> Datastore {
        match self {
            Self::Running => Datastore::Running,
            Self::Candidate => Datastore::Candidate,
            Self::Startup => Datastore::Startup,
        }
    }
    fn from_name(n: &str) -> Option<Self> {
        match n {
            "running" => Some(Self::Running),
            "candidate" => Some(Self::Candidate),
            "startup" => Some(Self::Startup),
            _ => None,
        }
    }
    fn as_source(self) -> Cnf {
        match self {
            Self::Running => vec![],
            Self::Candidate => vec![any(&["candidate"])],
            Self::Startup => vec![any(&["startup"])],
        }
    }
    fn as_target(self) -> Cnf {
        match self {
            Self::Running => vec![any(&["writable-running"])],
            Self::Candidate => vec![any(&["candidate"])],
            Self::Startup => vec![any(&["startup"])],
        }
    }
}

#[derive(Clone, Copy, Debug, PartialEq, Eq)]
enum Flt {
    None,
    Subtree,
    XPath,
}

#[derive(Clone, Debug, PartialEq, Eq)]
enum Src {
    Ds(Ds),
    Config,
    Url(&'static str),
}

#[derive(Clone, Debug, PartialEq, Eq)]
enum Req {
    Get(Flt),
    GetConfig(Ds, Flt),
    EditConfig { tgt: Ds, src: Src, defop: usize, errop: usize, testop: usize },
    CopyConfig { tgt: Ds, src: Src },
    DeleteConfig(Src),
    Lock(Ds),
    Unlock(Ds),
    KillSession,
    Commit { confirmed: bool, timeout: bool, persist: bool, persist_id: bool, rev: bool },
    CancelCommit { persist_id: bool },
    DiscardChanges,
    Validate(Src),
    JunosOpen(usize),
    JunosClose,
    JunosLock,
    JunosUnlock,
    JunosLoad,
    JunosCommit(usize),
    /// a builder call sequence that leaves out a parameter (nothing the caller did not name may reach the wire unlicensed)
    Partial(usize, Ds),
}

fn gen_ds(ctx: &mut Ctx) -> Ds {
    *ctx.tape.choose(&[Ds::Running, Ds::Candidate, Ds::Startup])
}
fn gen_flt(ctx: &mut Ctx) -> Flt {
    *ctx.tape.choose(&[Flt::None, Flt::Subtree, Flt::XPath])
}
fn gen_scheme(ctx: &mut Ctx) -> &'static str {
    SCHEMES[ctx.pick(4)]
}

fn gen_req(ctx: &mut Ctx) -> Req {
    match ctx.pick(19) {
        18 => Req::Partial(ctx.pick(10), gen_ds(ctx)),
        0 => Req::Get(gen_flt(ctx)),
        1 => Req::GetConfig(gen_ds(ctx), gen_flt(ctx)),
        2 => {
            let tgt = gen_ds(ctx);
            let src = if ctx.pick(3) == 2 { Src::Url(gen_scheme(ctx)) } else { Src::Config };
            Req::EditConfig { tgt, src, defop: ctx.pick(3), errop: ctx.pick(3), testop: ctx.pick(3) }
        }
        3 => {
            let tgt = gen_ds(ctx);
            let src = if ctx.pick(3) == 0 { Src::Config } else { Src::Ds(gen_ds(ctx)) };
            Req::CopyConfig { tgt, src }
        }
        4 => Req::DeleteConfig(if ctx.pick(3) == 0 { Src::Url(gen_scheme(ctx)) } else { Src::Ds(gen_ds(ctx)) }),
        5 => Req::Lock(gen_ds(ctx)),
        6 => Req::Unlock(gen_ds(ctx)),
        7 => Req::KillSession,
        8 => {
            let confirmed = ctx.pick(2) == 1;
            let timeout = confirmed && ctx.pick(2) == 1;
            let persist = confirmed && ctx.pick(2) == 1;
            let persist_id = !confirmed && ctx.pick(2) == 1;
            // the builder calls are made in either order: a check must not depend on what was set before it
            Req::Commit { confirmed, timeout, persist, persist_id, rev: ctx.pick(2) == 1 }
        }
        9 => Req::CancelCommit { persist_id: ctx.pick(2) == 1 },
        10 => Req::DiscardChanges,
        11 => Req::Validate(if ctx.pick(3) == 0 { Src::Config } else { Src::Ds(gen_ds(ctx)) }),
        12 => Req::JunosOpen(ctx.pick(3)),
        13 => Req::JunosClose,
        14 => Req::JunosLock,
        15 => Req::JunosUnlock,
        16 => Req::JunosLoad,
        _ => Req::JunosCommit(ctx.pick(4)),
    }
}

/// What the intended content needs (RFC 6241 section 8; Junos capability for Junos operations).
/// `None` = never permitted, whatever is advertised.
fn intended_requirements(r: &Req) -> Option<Cnf> {
    let flt = |f: Flt| if f == Flt::XPath { vec![any(&["xpath"])] } else { vec![] };
    let junos = || vec![any(&["junos"])];
    Some(match r {
        Req::Get(f) => flt(*f),
        Req::GetConfig(ds, f) => [ds.as_source(), flt(*f)].concat(),
        Req::EditConfig { tgt, src, errop, testop, .. } => {
            let mut c = tgt.as_target();
            if let Src::Url(s) = src {
                c.push(vec![format!("url:{s}")]);
            }
            if *errop == 2 {
                c.push(any(&["rollback"]));
            }
            match testop {
                1 => c.push(any(&["val10", "val11"])),
                2 => c.push(any(&["val11"])),
                _ => {}
            }
            c
        }
        Req::CopyConfig { tgt, src } => {
            let mut c = tgt.as_target();
            if let Src::Ds(d) = src {
                c.extend(d.as_source());
            }
            c
        }
        Req::DeleteConfig(Src::Ds(Ds::Running)) => return None,
        Req::DeleteConfig(Src::Ds(d)) => d.as_target(),
        Req::DeleteConfig(Src::Url(s)) => vec![vec![format!("url:{s}")]],
        Req::DeleteConfig(Src::Config) => return None,
        Req::Partial(..) => return None,
        Req::Lock(d) | Req::Unlock(d) => d.as_source(),
        Req::KillSession => vec![],
        Req::Commit { confirmed, timeout, persist, persist_id, .. } => {
            let mut c = vec![any(&["candidate"])];
            if *confirmed || *timeout {
                c.push(any(&["cc10", "cc11"]));
            }
            if *persist || *persist_id {
                c.push(any(&["cc11"]));
            }
            c
        }
        Req::CancelCommit { .. } => vec![any(&["cc11"])],
        Req::DiscardChanges => vec![any(&["candidate"])],
        Req::Validate(src) => {
            let mut c = vec![any(&["val10", "val11"])];
            if let Src::Ds(d) = src {
                c.extend(d.as_source());
            }
            c
        }
        Req::JunosOpen(_) | Req::JunosClose | Req::JunosLock | Req::JunosUnlock | Req::JunosLoad | Req::JunosCommit(_) => junos(),
    })
}

/// What the content found on the wire needs. Returns (feature description, requirement) pairs.
fn wire_requirements(rpc: &Elem) -> Result<Vec<(String, Cnf)>, String> {
    let Some(op) = rpc.elems().next() else { return Err("rpc without operation".into()) };
    let mut out: Vec<(String, Cnf)> = Vec::new();
    let ds_of = |container: &Elem| -> Option<Ds> { container.elems().find_map(|e| Ds::from_name(&e.local)) };
    let url_of = |container: &Elem| -> Option<String> { container.child("url").map(|u| u.text().split(':').next().unwrap_or("").to_string()) };
    let filter = |op: &Elem, out: &mut Vec<(String, Cnf)>| {
        if let Some(f) = op.child("filter") {
            if f.attr("type") == Some("xpath") || f.attr("select").is_some() {
                out.push(("filter-xpath".into(), vec![any(&["xpath"])]));
            }
        }
    };
    match op.local.as_str() {
        "get" => filter(op, &mut out),
        "get-config" => {
            if let Some(d) = op.child("source").and_then(ds_of) {
                out.push((format!("source-{d:?}"), d.as_source()));
            }
            filter(op, &mut out);
        }
        "edit-config" => {
            if let Some(d) = op.child("target").and_then(ds_of) {
                out.push((format!("target-{d:?}"), d.as_target()));
            }
            if let Some(s) = url_of(op) {
                out.push((format!("url-{s}"), vec![vec![format!("url:{s}")]]));
            }
            if let Some(e) = op.child("error-option") {
                if e.text().trim() == "rollback-on-error" {
                    out.push(("error-option-rollback-on-error".into(), vec![any(&["rollback"])]));
                }
            }
            if let Some(t) = op.child("test-option") {
                let req = if t.text().trim() == "test-only" { any(&["val11"]) } else { any(&["val10", "val11"]) };
                out.push((format!("test-option-{}", t.text().trim()), vec![req]));
            }
        }
        "copy-config" => {
            if let Some(t) = op.child("target") {
                if let Some(d) = ds_of(t) {
                    out.push((format!("target-{d:?}"), d.as_target()));
                }
                if let Some(s) = url_of(t) {
                    out.push((format!("url-{s}"), vec![vec![format!("url:{s}")]]));
                }
            }
            if let Some(t) = op.child("source") {
                if let Some(d) = ds_of(t) {
                    out.push((format!("source-{d:?}"), d.as_source()));
                }
                if let Some(s) = url_of(t) {
                    out.push((format!("url-{s}"), vec![vec![format!("url:{s}")]]));
                }
            }
        }
        "delete-config" => {
            if let Some(t) = op.child("target") {
                match ds_of(t) {
                    Some(Ds::Running) => out.push(("target-Running".into(), vec![vec!["<never permitted>".into()]])),
                    Some(d) => out.push((format!("target-{d:?}"), d.as_target())),
                    None => {}
                }
                if let Some(s) = url_of(t) {
                    out.push((format!("url-{s}"), vec![vec![format!("url:{s}")]]));
                }
            }
        }
        "lock" | "unlock" => {
            if let Some(d) = op.child("target").and_then(ds_of) {
                out.push((format!("target-{d:?}"), d.as_source()));
            }
        }
        "kill-session" | "close-session" => {}
        "commit" => {
            out.push(("operation".into(), vec![any(&["candidate"])]));
            for p in ["confirmed", "confirm-timeout"] {
                if op.child(p).is_some() {
                    out.push((p.into(), vec![any(&["cc10", "cc11"])]));
                }
            }
            for p in ["persist", "persist-id"] {
                if op.child(p).is_some() {
                    out.push((p.into(), vec![any(&["cc11"])]));
                }
            }
        }
        "cancel-commit" => out.push(("operation".into(), vec![any(&["cc11"])])),
        "discard-changes" => out.push(("operation".into(), vec![any(&["candidate"])])),
        "validate" => {
            out.push(("operation".into(), vec![any(&["val10", "val11"])]));
            if let Some(d) = op.child("source").and_then(ds_of) {
                out.push((format!("source-{d:?}"), d.as_source()));
            }
        }
        "open-configuration" | "close-configuration" | "lock-configuration" | "unlock-configuration" | "load-configuration" | "commit-configuration" => {
            out.push(("operation".into(), vec![any(&["junos"])]));
        }
        other => return Err(format!("unknown operation <{other}> on the wire")),
    }
    Ok(out.into_iter().map(|(f, c)| (format!("{}/{f}", op.local), c)).collect())
}

fn licensed(caps: &BTreeSet<String>, cnf: &Cnf) -> bool {
    cnf.iter().all(|clause| clause.iter().any(|c| caps.contains(c)))
}

struct Fake;
impl Server for Fake {
    fn on_message(&mut self, msg: &str) -> Vec<Vec<u8>> {
        let Ok(doc) = crate::xml::parse(msg) else { return vec![] };
        if doc.root.local == "hello" {
            return vec![];
        }
        let id = doc.root.attr("message-id").unwrap_or("0").to_string();
        let op = doc.root.elems().next().map(|e| e.local.clone()).unwrap_or_default();
        let body = match op.as_str() {
            "get" | "get-config" => "<data><x xmlns=\"urn:x\"/></data>",
            "open-configuration" | "close-configuration" | "lock-configuration" | "unlock-configuration" => "",
            "load-configuration" => "<load-configuration-results><ok/></load-configuration-results>",
            _ => "<ok/>",
        };
        vec![reply(&id, body)]
    }
}

async fn issue(s: &mut Session<SimTransport>, r: &Req) -> Result<(), Error> {
    let url = |scheme: &str| format!("{scheme}://host.example/path/config.xml");
    let flt = |f: Flt| match f {
        Flt::None => None,
        Flt::Subtree => Some(Filter::Subtree("<top xmlns=\"urn:x\"/>".into())),
        Flt::XPath => Some(Filter::XPath("/top/x".into())),
    };
    match r.clone() {
        Req::Get(f) => s.rpc::<Get, _>(|b| b.filter(flt(f)).finish()).await?.await.map(|_| ()),
        Req::GetConfig(ds, f) => s.rpc::<GetConfig<Opaque>, _>(|b| b.source(ds.lib())?.filter(flt(f))?.finish()).await?.await.map(|_| ()),
        Req::EditConfig { tgt, src, defop, errop, testop } => {
            s.rpc::<EditConfig<Opaque>, _>(|b| {
                let mut b = b.target(tgt.lib())?;
                b = match &src {
                    Src::Url(sch) => b.url(url(sch))?,
                    _ => b.config(Opaque::from("<top xmlns=\"urn:x\"/>")),
                };
                b = match defop {
                    1 => b.default_operation(DefaultOperation::Replace),
                    2 => b.default_operation(DefaultOperation::None),
                    _ => b,
                };
                b = match errop {
                    1 => b.error_option(ErrorOption::ContinueOnError)?,
                    2 => b.error_option(ErrorOption::RollbackOnError)?,
                    _ => b,
                };
                b = match testop {
                    1 => b.test_option(TestOption::Set)?,
                    2 => b.test_option(TestOption::TestOnly)?,
                    _ => b,
                };
                b.finish()
            })
            .await?
            .await
        }
        Req::CopyConfig { tgt, src } => {
            s.rpc::<CopyConfig, _>(|b| {
                let b = b.target(tgt.lib())?;
                match src {
                    Src::Ds(d) => b.source(d.lib())?.finish(),
                    _ => b.config("<top xmlns=\"urn:x\"/>".into()).finish(),
                }
            })
            .await?
            .await
        }
        Req::DeleteConfig(t) => {
            s.rpc::<DeleteConfig, _>(|b| match t {
                Src::Ds(d) => b.target(d.lib())?.finish(),
                Src::Url(sch) => b.url(url(sch))?.finish(),
                Src::Config => b.finish(),
            })
            .await?
            .await
        }
        Req::Lock(d) => s.rpc::<Lock, _>(|b| b.target(d.lib())?.finish()).await?.await,
        Req::Unlock(d) => s.rpc::<Unlock, _>(|b| b.target(d.lib())?.finish()).await?.await,
        Req::KillSession => s.rpc::<KillSession, _>(|b| b.session_id(4711)?.finish()).await?.await,
        Req::Commit { confirmed, timeout, persist, persist_id, rev } => {
            s.rpc::<Commit, _>(|b| {
                let mut b = b;
                let steps: [usize; 4] = if rev { [3, 2, 1, 0] } else { [0, 1, 2, 3] };
                for step in steps {
                    b = match step {
                        0 if confirmed => b.confirmed(true)?,
                        1 if timeout => b.confirm_timeout(Duration::from_secs(120))?,
                        2 if persist => b.persist(Some(Token::new("tok-1")))?,
                        3 if persist_id => b.persist_id(Some(Token::new("tok-1")))?,
                        _ => b,
                    };
                }
                b.finish()
            })
            .await?
            .await
        }
        Req::CancelCommit { persist_id } => {
            s.rpc::<CancelCommit, _>(|b| if persist_id { b.persist_id(Some(Token::new("tok-1")))?.finish() } else { b.finish() }).await?.await
        }
        Req::DiscardChanges => s.rpc::<DiscardChanges, _>(|b| b.finish()).await?.await,
        Req::Validate(src) => {
            s.rpc::<Validate, _>(|b| match src {
                Src::Ds(d) => b.source(d.lib())?.finish(),
                _ => b.config("<top xmlns=\"urn:x\"/>".into()).finish(),
            })
            .await?
            .await
        }
        Req::JunosOpen(k) => {
            s.rpc::<OpenConfiguration, _>(|b| match k {
                0 => b.private().finish(),
                1 => b.ephemeral(None::<&str>).finish(),
                _ => b.ephemeral(Some("inst")).finish(),
            })
            .await?
            .await
        }
        Req::JunosClose => s.rpc::<CloseConfiguration, _>(|b| b.finish()).await?.await,
        Req::JunosLock => s.rpc::<LockConfiguration, _>(|b| b.finish()).await?.await,
        Req::JunosUnlock => s.rpc::<UnlockConfiguration, _>(|b| b.finish()).await?.await,
        Req::JunosLoad => s.rpc::<LoadConfiguration<_>, _>(|b| b.source(Config::new(Opaque::from("<configuration/>"), Xml, Merge)).finish()).await?.await,
        Req::Partial(k, ds) => match k {
            0 => s.rpc::<EditConfig<Opaque>, _>(|b| b.config(Opaque::from("<top xmlns=\"urn:x\"/>")).finish()).await?.await,
            1 => s.rpc::<EditConfig<Opaque>, _>(|b| b.url(url("file"))?.finish()).await?.await,
            2 => s.rpc::<CopyConfig, _>(|b| b.source(ds.lib())?.finish()).await?.await,
            3 => s.rpc::<CopyConfig, _>(|b| b.target(ds.lib())?.finish()).await?.await,
            4 => s.rpc::<Lock, _>(|b| b.finish()).await?.await,
            5 => s.rpc::<Unlock, _>(|b| b.finish()).await?.await,
            6 => s.rpc::<KillSession, _>(|b| b.finish()).await?.await,
            7 => s.rpc::<Validate, _>(|b| b.finish()).await?.await,
            8 => s.rpc::<GetConfig<Opaque>, _>(|b| b.finish()).await?.await.map(|_| ()),
            _ => s.rpc::<EditConfig<Opaque>, _>(|b| b.default_operation(DefaultOperation::Replace).finish()).await?.await,
        },
        Req::JunosCommit(k) => {
            s.rpc::<CommitConfiguration, _>(|b| match k {
                0 => b.finish(),
                1 => b.check(true).finish(),
                2 => b.confirmed(true).with_log_message("log").finish(),
                _ => b.synchronize(false).finish(),
            })
            .await?
            .await
        }
    }
}

fn run(ctx: &mut Ctx) -> Verdict {
    // capability subset
    let mut caps: BTreeSet<String> = BTreeSet::new();
    let mut uris: Vec<String> = vec![CAP_BASE10.to_string()];
    let mut url_arg_before_scheme = false;
    for (tok, uri) in SIMPLE_CAPS {
        if ctx.pick(2) == 1 {
            caps.insert(tok.to_string());
            uris.push(format!("{URI_PREFIX}{uri}"));
        }
    }
    if ctx.pick(2) == 1 {
        let schemes: Vec<&str> = SCHEMES.iter().copied().filter(|_| ctx.pick(2) == 1).collect();
        if !schemes.is_empty() {
            for s in &schemes {
                caps.insert(format!("url:{s}"));
            }
            // the query of the capability URI may carry other arguments next to scheme= (vendor
            // extensions): they change nothing about which schemes are advertised
            let variant = ctx.tape.weighted(&[5, 1, 1, 1]);
            url_arg_before_scheme = variant >= 2;
            let q = match variant {
                0 => format!("scheme={}", schemes.join(",")),
                1 => format!("scheme={}&x-max-size=1024", schemes.join(",")),
                2 => format!("x-proxy=none&scheme={}", schemes.join(",")),
                _ => format!("a=1&scheme={}&b=2", schemes.join(",")),
            };
            uris.push(format!("{URI_PREFIX}url:1.0?{q}"));
        }
    }
    if ctx.pick(4) != 0 {
        caps.insert("junos".into());
        uris.push(CAP_JUNOS.to_string());
    }
    let n = 1 + ctx.pick(5);
    let reqs: Vec<Req> = (0..n).map(|_| gen_req(ctx)).collect();
    ev!(ctx, "caps {:?}", caps);
    ev!(ctx, "reqs {:?}", reqs);

    let outcomes: Arc<Mutex<Vec<(usize, usize, Result<(), String>)>>> = Arc::default();
    let (out2, reqs2) = (outcomes.clone(), reqs.clone());
    let uri_refs: Vec<&str> = uris.iter().map(String::as_str).collect();
    let (q, exec) = drive(ctx, Box::new(Fake), Some(hello_with(&uri_refs, "5")), SchedCfg::default(), move |net, _| {
        Box::pin(async move {
            let mut s = match Session::verif_new(SimTransport(net.clone())).await {
                Ok(s) => s,
                Err(e) => {
                    out2.lock().unwrap().push((usize::MAX, 0, Err(format!("{e:?}"))));
                    return;
                }
            };
            for (k, r) in reqs2.iter().enumerate() {
                let before = {
                    let n = net.lock().unwrap();
                    n.received.len() + n.unframed_len()
                };
                let res = issue(&mut s, r).await;
                let after = {
                    let n = net.lock().unwrap();
                    n.received.len() + n.unframed_len()
                };
                out2.lock().unwrap().push((k, after - before, res.map_err(|e| format!("{e:?}"))));
            }
        })
    });
    if let Some((t, m)) = exec.panics.first() {
        return Verdict::violation("panic", format!("task {t} panicked: {m}"));
    }
    if q != Quiescence::Quiet(vec![]) {
        return Verdict::violation("stuck", format!("{q:?}"));
    }
    let outcomes = outcomes.lock().unwrap().clone();
    if let Some((_, _, Err(e))) = outcomes.iter().find(|o| o.0 == usize::MAX) {
        return Verdict::violation("session-establishment-failed", e.clone());
    }
    // soundness: everything on the wire is licensed
    let received = exec.net.lock().unwrap().received.clone();
    for msg in received.iter().skip(1) {
        let doc = match crate::xml::parse(msg) {
            Ok(d) => d,
            Err(e) => return Verdict::violation("malformed-request", format!("{e}: {msg}")),
        };
        match wire_requirements(&doc.root) {
            Ok(feats) => {
                for (f, cnf) in feats {
                    if !licensed(&caps, &cnf) {
                        return Verdict::violation(format!("unlicensed-on-wire/{f}"), format!("sent {msg} but the server advertised only {caps:?} (needs {cnf:?})"));
                    }
                }
            }
            Err(e) => return Verdict::violation("unknown-request-on-wire", e),
        }
    }
    // completeness and "rejected => nothing sent"
    let mut sent_expected = 1; // client hello
    for (k, delta, res) in &outcomes {
        let r = &reqs[*k];
        let lic = intended_requirements(r).is_some_and(|c| licensed(&caps, &c));
        if lic {
            ctx.nontrivial = true;
        }
        let opname = format!("{r:?}");
        let opname = opname.split(|c: char| !c.is_alphanumeric()).next().unwrap_or("").to_string();
        match res {
            Ok(()) => {
                if *delta != 1 {
                    return Verdict::violation(format!("request-count/{opname}"), format!("{r:?} succeeded but {delta} messages reached the server"));
                }
                sent_expected += 1;
            }
            Err(e) => {
                if *delta != 0 {
                    return Verdict::violation(format!("rejected-but-sent/{opname}"), format!("{r:?} failed with {e} but {delta} message(s) reached the server"));
                }
                if lic {
                    // known finding (same root cause as C12's uri-not-unescaped): capability text is not
                    // XML-unescaped, so in "...?x=1&amp;scheme=ftp" the key is read as "amp;scheme"
                    let uses_url = matches!(r, Req::DeleteConfig(Src::Url(_)) | Req::EditConfig { src: Src::Url(_), .. });
                    let class = if uses_url && url_arg_before_scheme && e.contains("UnsupportedUrlScheme") {
                        format!("licensed-request-rejected/{opname}/url-capability-argument-before-scheme")
                    } else {
                        format!("licensed-request-rejected/{opname}")
                    };
                    return Verdict::violation(class, format!("{r:?} is within the advertised capabilities {caps:?} (capability URIs {uris:?}) but was rejected: {e}"));
                }
                ctx.count("outcome.rejected_locally");
            }
        }
        if matches!(r, Req::EditConfig { tgt: Ds::Startup, .. }) && res.is_ok() {
            ctx.note("edit-config with <startup/> as target was sent (RFC 6241 lists no capability that permits it; the table follows the library and asks for :startup)");
        }
    }
    if received.len() != sent_expected {
        return Verdict::violation("request-count", format!("{} messages on the wire, expected {sent_expected}", received.len()));
    }
    Verdict::Pass
}

pub static C09: PropSpec = PropSpec {
    id: "C09",
    simulator: "S-sim",
    level: "exploration",
    runs: |t| if t == Tier::Thorough { 30_000_000 } else { 200_000 },
    enumerated: |_| 0,
    run,
    rule: "server hello advertises a seeded subset of the RFC 6241 capabilities (every combination of url schemes, the scheme list alone or next to other query arguments) and optionally the Junos capability; 1-5 requests per session drawn from every builder with every datastore / filter / option / parameter combination (non-default values only where the default is not serialised). Non-trivial = at least one request was within the advertised set; distinct = distinct event-log hash (capability set + request sequence)",
    components: &[("netconf session + request builders + capabilities.rs", "real"), ("transport", "stub: in-memory"), ("NETCONF server", "model: records and parses every request")],
    assumptions: &[
        "decided by generated peer behaviour (capability sets) and call sequences; schedule fixed",
        "requirement table transcribed from RFC 6241 section 8; edit-config to <startup/> is treated as needing :startup (as the library does), although the RFC lists no capability for it",
    ],
    watchdog_s: 30,
    stuck_is_verdict: false,
    serial: false,
};
