pub mod agent;
pub mod c05;
pub mod c06;
pub mod c08;
pub mod c09;
pub mod c10;
pub mod c11;
pub mod c12;
pub mod c07_proc;
pub mod c12_tls;
pub mod c13;
pub mod c14;
pub mod c16;
pub mod c19;
pub mod c18_rsim;
pub mod c19_proc;
pub mod c20;
pub mod c20_agent;

use crate::core::PropSpec;

pub fn all() -> Vec<&'static PropSpec> {
    vec![&agent::C01, &agent::C02, &agent::C03, &agent::C04, &c05::C05, &c06::C06, &c06::C07, &c08::C08, &c09::C09, &c10::C10, &c11::C11, &c12::C12, &c13::C13, &c14::C14, &agent::C15, &c16::C16, &c11::C17, &c05::C18, &c19::C19, &c20::C20]
}

pub fn lookup(id: &str) -> Option<&'static PropSpec> {
    all().into_iter().find(|p| p.id == id)
}
