pub mod c05;

use crate::core::PropSpec;

pub fn all() -> Vec<&'static PropSpec> {
    vec![&c05::C05, &c05::C18]
}

pub fn lookup(id: &str) -> Option<&'static PropSpec> {
    all().into_iter().find(|p| p.id == id)
}
