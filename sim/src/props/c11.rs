//! C11 (evaluation equals RPSL set semantics over the IRR data) and C17 (evaluations are
//! independent of connection history) — I-sim: the real `RpslEvaluator` over the vendored irrc
//! whose socket is an in-memory stream with seeded read segmentation and partial writes.

use std::sync::{Arc, Mutex};

use bgpfu::RpslEvaluator;
use rpsl::expr::MpFilterExpr;

use crate::core::{Ctx, PropSpec, Rng, Tier, Verdict};
use crate::ev;
use crate::irrd::{atoms_of, describe, gen_db, gen_expr, install, reference_eval, render_set, uninstall, Db, Fault, GenCfg, IrrState, SharedIrr};

pub fn setup_irr(ctx: &mut Ctx, db: Db) -> SharedIrr {
    let seg_mode = ctx.tape.weighted(&[2, 2, 3]);
    let seg_seed = ctx.pick(1 << 20) as u64;
    let st = IrrState {
        db,
        empty_is_not_found: ctx.pick(2) == 0,
        seg_mode,
        seg_rng: Some(Rng(seg_seed)),
        ..IrrState::default()
    };
    let shared = Arc::new(Mutex::new(st));
    install(shared.clone());
    shared
}

fn db_cfg(ctx: &mut Ctx) -> GenCfg {
    if ctx.tier == Tier::Thorough && ctx.chance(1, 40) {
        GenCfg { max_as: 2_600, max_sets: 6, max_routes_per_as: 2, rich_filter_sets: false }
    } else if ctx.tier == Tier::Thorough {
        GenCfg { max_as: 40, max_sets: 10, max_routes_per_as: 6, rich_filter_sets: ctx.chance(1, 4) }
    } else {
        GenCfg { max_as: 10, max_sets: 6, max_routes_per_as: 4, rich_filter_sets: ctx.chance(1, 4) }
    }
}

fn gen_query_expr(ctx: &mut Ctx, db: &Db) -> String {
    let mut atoms = atoms_of(db);
    if ctx.chance(1, 12) {
        atoms.push("AS-NOSUCHSET".into());
    }
    if ctx.chance(1, 12) {
        atoms.push("RS-NOSUCHSET".into());
    }
    if ctx.chance(1, 12) {
        atoms.push("FLTR-NOSUCHSET".into());
    }
    let depth = 1 + ctx.pick(3);
    gen_expr(ctx, &atoms, depth)
}

fn lib_eval(ev: &mut RpslEvaluator, expr: &str) -> Result<Vec<String>, String> {
    let parsed: MpFilterExpr = expr.parse().map_err(|e| format!("parse: {e}"))?;
    let r = std::panic::catch_unwind(std::panic::AssertUnwindSafe(|| ev.evaluate(parsed)));
    match r {
        Ok(Ok(set)) => Ok(render_set(&set)),
        Ok(Err(e)) => Err(format!("{e}")),
        Err(_) => Err("PANIC".into()),
    }
}

/// Evaluate `expr` with the `bgpfu` executable (child process) against FakeIrrd on a loopback
/// TCP socket: Ok(sorted output lines) or Err(stderr tail).
fn cli_eval(irr: &SharedIrr, expr: &str) -> Result<Result<Vec<String>, String>, String> {
    use std::io::Read;
    use std::process::{Command, Stdio};
    use std::sync::atomic::{AtomicBool, Ordering};
    let stop = Arc::new(AtomicBool::new(false));
    let (port, server) = crate::irrd::serve_tcp(irr.clone(), stop.clone()).map_err(|e| format!("FakeIrrd listen: {e}"))?;
    let exe = std::env::current_exe().expect("exe").with_file_name("bgpfubin");
    let mut cmd = Command::new(&exe);
    cmd.env_clear().args(["-H", "127.0.0.1", "-P", &port.to_string(), "--", expr]).stdin(Stdio::null()).stdout(Stdio::piped()).stderr(Stdio::piped());
    let mut child = crate::core::spawn_retry(&mut cmd).map_err(|e| format!("spawn {exe:?}: {e}"))?;
    let (mut so, mut se) = (child.stdout.take().expect("stdout"), child.stderr.take().expect("stderr"));
    let t_out = std::thread::spawn(move || {
        let mut v = String::new();
        let _ = so.read_to_string(&mut v);
        v
    });
    let t_err = std::thread::spawn(move || {
        let mut v = String::new();
        let _ = se.read_to_string(&mut v);
        v
    });
    let started = std::time::Instant::now();
    let status = loop {
        match child.try_wait() {
            Ok(Some(s)) => break Some(s),
            Ok(None) if started.elapsed() > std::time::Duration::from_secs(15) => {
                let _ = child.kill();
                let _ = child.wait();
                break None;
            }
            Ok(None) => {
                crate::core::beat();
                std::thread::sleep(std::time::Duration::from_millis(1));
            }
            Err(e) => return Err(format!("wait: {e}")),
        }
    };
    stop.store(true, Ordering::Relaxed);
    let _ = server.join();
    let (out, err) = (t_out.join().unwrap_or_default(), t_err.join().unwrap_or_default());
    match status {
        None => Ok(Err("STUCK: the bgpfu process was still running after 15 s".into())),
        Some(s) if s.success() => {
            let mut v: Vec<String> = out.lines().map(str::to_string).collect();
            v.sort();
            Ok(Ok(v))
        }
        Some(_) => Ok(Err(err.lines().last().unwrap_or("").chars().take(300).collect())),
    }
}

fn run_c11(ctx: &mut Ctx) -> Verdict {
    crate::ssim::quiet_panics();
    // the agent half of the property ("the route-filters the agent installs are that set, split by
    // family"): one run in 40 is a history of real agent runs against FakeJunos + FakeIrrd (the C01
    // scenario and oracle), so that a change between evaluation and router is seen here too
    if ctx.tape.weighted(&[39, 1]) == 1 {
        ctx.count("runs.agent_history");
        return super::agent::history(ctx, super::agent::Focus::C01);
    }
    let cfg = db_cfg(ctx);
    let mut db = gen_db(ctx, &cfg);
    if cfg.max_as > 1000 {
        let all: Vec<String> = db.routes.keys().cloned().collect();
        db.as_sets.insert("AS-BIG".into(), all);
    }
    let expr = if cfg.max_as > 1000 && ctx.pick(2) == 0 { "AS-BIG".to_string() } else { gen_query_expr(ctx, &db) };
    ev!(ctx, "db {}", describe(&db).chars().take(3000).collect::<String>());
    ev!(ctx, "expr {expr}");
    let want = reference_eval(&db, &expr);
    // one run in 16: the `bgpfu` executable over a real loopback TCP connection
    let via_cli = cfg.max_as <= 1000 && ctx.chance(1, 16);
    let warm_up: Option<String> = (!via_cli && cfg.max_as <= 1000 && ctx.chance(1, 6)).then(|| {
        ctx.count("probe.evaluator_used_before");
        if ctx.pick(2) == 0 { "AS-NOSUCHSET".to_string() } else { gen_query_expr(ctx, &db) }
    });
    if let Some(w) = &warm_up {
        ev!(ctx, "evaluated before on the same evaluator: {w}");
    }
    let irr = setup_irr(ctx, db);
    let got = if via_cli {
        uninstall();
        ctx.count("runs.bgpfu_executable_over_tcp");
        match cli_eval(&irr, &expr) {
            Ok(r) => r,
            Err(e) => return Verdict::violation("harness-error", e),
        }
    } else {
        match RpslEvaluator::new("irrd.sim", 43) {
            Ok(mut e) => {
                if let Some(w) = &warm_up {
                    // the evaluator is not fresh: something else (possibly unevaluable) was evaluated before
                    let _ = lib_eval(&mut e, w);
                }
                let r = lib_eval(&mut e, &expr);
                drop(e);
                r
            }
            Err(e) => Err(format!("connect: {e}")),
        }
    };
    uninstall();
    if via_cli {
        if let Err(g) = &got {
            if g.starts_with("STUCK") {
                return Verdict::violation("cli-stuck", format!("expression {expr}: {g}"));
            }
        }
    }
    let st = irr.lock().unwrap();
    if via_cli {
        // the child process has its own (random) hash seeds: the order of its pipelined queries is not part of the event log
        // (and, when its evaluation fails, which of them it still sends before it gives up is not either)
        if got.is_ok() {
            let mut q: Vec<&String> = st.queries.iter().collect();
            q.sort();
            ev!(ctx, "queries of the bgpfu process (sorted) {:?}", q.iter().take(60).collect::<Vec<_>>());
        }
    } else {
        ev!(ctx, "queries {:?}", st.queries.iter().take(60).collect::<Vec<_>>());
    }
    ctx.count_n("net.short_read", st.short_reads as u64);
    ctx.count_n("net.partial_write", st.partial_writes as u64);
    if st.queries.len() > 1000 {
        ctx.count("probe.more_than_1000_queries_in_one_evaluation");
    }
    if st.bytes_out > 8192 {
        ctx.count("probe.more_than_8_KiB_of_responses_in_one_run");
    }
    if st.zero_len_reads > 10_000 {
        return Verdict::violation("evaluation-spins/reads-into-a-full-buffer", format!("expression {expr}: the client asked FakeIrrd for 0 bytes more than 10000 times in a row (its receive buffer is full and never drained); on a real socket it would spin for ever"));
    }
    ctx.sim_time_ns = 0;
    match (&want, &got) {
        (Ok(w), Ok(g)) => {
            ctx.nontrivial = !w.is_empty();
            ctx.count("outcome.evaluated");
            if w != g {
                let missing: Vec<_> = w.iter().filter(|x| !g.contains(x)).take(5).collect();
                let extra: Vec<_> = g.iter().filter(|x| !w.contains(x)).take(5).collect();
                return Verdict::violation("result-differs-from-rpsl-semantics", format!("expression {expr}: {} ranges expected, {} returned; missing {missing:?}; extra {extra:?}", w.len(), g.len()));
            }
        }
        (Err(_), Err(g)) => {
            ctx.count("outcome.unevaluable");
            if g == "PANIC" {
                ctx.note("evaluation of an unevaluable expression panicked instead of returning an error");
            }
        }
        (Ok(w), Err(g)) => {
            return Verdict::violation("evaluation-failed", format!("expression {expr} is evaluable ({} ranges) but the evaluator failed: {g}", w.len()));
        }
        (Err(w), Ok(g)) => {
            return Verdict::violation("unevaluable-expression-evaluated", format!("expression {expr} cannot be evaluated ({w}) but the evaluator returned {} ranges", g.len()));
        }
    }
    Verdict::Pass
}

/// C17, differential form: some queries fail every time (on every connection). Each expression of a
/// sequence is evaluated on one shared evaluator and, afterwards, on a fresh one; the two results
/// must be the same - also for evaluations that met failing queries themselves.
fn run_c17_persistent(ctx: &mut Ctx) -> Verdict {
    let cfg = if ctx.tier == Tier::Thorough { GenCfg { max_as: 30, max_sets: 8, max_routes_per_as: 5, rich_filter_sets: false } } else { GenCfg { max_as: 8, max_sets: 5, max_routes_per_as: 3, rich_filter_sets: false } };
    let db = gen_db(ctx, &cfg);
    let n = 2 + ctx.pick(if ctx.tier == Tier::Thorough { 11 } else { 7 });
    let exprs: Vec<String> = (0..n).map(|_| gen_query_expr(ctx, &db)).collect();
    // candidate queries: routes of every AS, members of every set
    let mut keys: Vec<String> = Vec::new();
    for asn in db.routes.keys() {
        keys.push(format!("!g{asn}"));
        keys.push(format!("!6{asn}"));
    }
    for set in db.as_sets.keys().chain(db.route_sets.keys()) {
        keys.push(format!("!i{set},1"));
    }
    let mut broken = std::collections::BTreeMap::new();
    if !keys.is_empty() {
        for _ in 0..(1 + ctx.pick(6)) {
            let k = keys[ctx.pick(keys.len())].clone();
            let f = *ctx.tape.choose(&[Fault::Other, Fault::NotUnique, Fault::NotFound]);
            broken.insert(k, f);
        }
    }
    ev!(ctx, "db {}", describe(&db).chars().take(2000).collect::<String>());
    ev!(ctx, "exprs {exprs:?} queries that always fail {broken:?}");
    let irr = setup_irr(ctx, db);
    irr.lock().unwrap().broken_queries = broken;
    let mut shared_ev = match RpslEvaluator::new("irrd.sim", 43) {
        Ok(e) => e,
        Err(e) => {
            uninstall();
            return Verdict::violation("connect-failed", format!("{e}"));
        }
    };
    let shared: Vec<Result<Vec<String>, String>> = exprs.iter().map(|e| lib_eval(&mut shared_ev, e)).collect();
    drop(shared_ev);
    let fired_shared = irr.lock().unwrap().faults_fired.len();
    let fresh: Vec<Result<Vec<String>, String>> = exprs
        .iter()
        .map(|e| match RpslEvaluator::new("irrd.sim", 43) {
            Ok(mut f) => lib_eval(&mut f, e),
            Err(e) => Err(format!("connect: {e}")),
        })
        .collect();
    uninstall();
    ctx.count_n("fault.irr_persistent_error_response", fired_shared as u64);
    ctx.nontrivial = fired_shared > 0;
    let mut errors_so_far = 0;
    for (i, (s, f)) in shared.iter().zip(&fresh).enumerate() {
        ev!(ctx, "eval #{i} {}: shared {} / fresh {}", exprs[i], match s { Ok(g) => format!("Ok({} ranges)", g.len()), Err(_) => "Err".into() }, match f { Ok(g) => format!("Ok({} ranges)", g.len()), Err(_) => "Err".into() });
        let same = match (s, f) {
            (Ok(a), Ok(b)) => a == b,
            (Err(_), Err(_)) => true,
            _ => false,
        };
        if !same {
            return Verdict::violation(
                "history-dependent-result/with-failing-queries",
                format!(
                    "evaluation #{i} of {} ({errors_so_far} earlier evaluations on the connection had failed): on the shared evaluator {}, on a fresh one {}; evaluated before: {:?}",
                    exprs[i],
                    match s { Ok(g) => format!("{} ranges {:?}", g.len(), g.iter().take(4).collect::<Vec<_>>()), Err(e) => format!("error ({e})") },
                    match f { Ok(g) => format!("{} ranges {:?}", g.len(), g.iter().take(4).collect::<Vec<_>>()), Err(e) => format!("error ({e})") },
                    &exprs[..i],
                ),
            );
        }
        if s.is_err() {
            errors_so_far += 1;
        }
    }
    if errors_so_far > 0 {
        ctx.count("probe.sequence_with_failed_evaluations");
    }
    Verdict::Pass
}

/// C17, long histories: 12-48 evaluations on one evaluator, drawn from a small pool of expressions
/// over a database whose filter-sets may hold unevaluable constructs (the evaluation then unwinds
/// out of the evaluator, as it does under the agent's catch_unwind) or very long prefix lists.
/// Every evaluation must equal the reference, whatever number of failed or unwound ones came before.
fn run_c17_long(ctx: &mut Ctx) -> Verdict {
    let cfg = GenCfg { max_as: 6, max_sets: 4, max_routes_per_as: 3, rich_filter_sets: true };
    let db = gen_db(ctx, &cfg);
    let mut pool: Vec<String> = (0..(1 + ctx.pick(4))).map(|_| gen_query_expr(ctx, &db)).collect();
    let fs: Vec<String> = db.filter_sets.keys().cloned().collect();
    pool.push(ctx.tape.choose(&fs).clone());
    if ctx.pick(2) == 0 {
        pool.push(format!("{} OR {}", ctx.tape.choose(&fs), ctx.tape.choose(&fs)));
    }
    let n = 12 + ctx.pick(if ctx.tier == Tier::Thorough { 90 } else { 37 });
    // histories are lumpy: the same expression tends to be evaluated several times in a row
    let mut seq = Vec::with_capacity(n);
    let mut cur = ctx.pick(pool.len());
    for _ in 0..n {
        if ctx.pick(3) == 0 {
            cur = ctx.pick(pool.len());
        }
        seq.push(cur);
    }
    ev!(ctx, "db {}", describe(&db).chars().take(2000).collect::<String>());
    ev!(ctx, "pool {:?} sequence {seq:?}", pool.iter().map(|e| e.chars().take(120).collect::<String>()).collect::<Vec<_>>());
    let wants: Vec<Result<Vec<String>, String>> = pool.iter().map(|e| reference_eval(&db, e)).collect();
    let irr = setup_irr(ctx, db);
    let mut ev = match RpslEvaluator::new("irrd.sim", 43) {
        Ok(e) => e,
        Err(e) => {
            uninstall();
            return Verdict::violation("connect-failed", format!("{e}"));
        }
    };
    let gots: Vec<Result<Vec<String>, String>> = seq.iter().map(|k| lib_eval(&mut ev, &pool[*k])).collect();
    drop(ev);
    uninstall();
    if irr.lock().unwrap().zero_len_reads > 10_000 {
        return Verdict::violation("evaluation-spins/reads-into-a-full-buffer", "the client kept asking FakeIrrd for 0 bytes".to_string());
    }
    let (mut failed, mut unwound) = (0, 0);
    for (i, (k, got)) in seq.iter().zip(&gots).enumerate() {
        let want = &wants[*k];
        let same = match (want, got) {
            (Ok(w), Ok(g)) => w == g,
            (Err(_), Err(_)) => true,
            _ => false,
        };
        if !same {
            return Verdict::violation(
                "history-dependent-result/long-history",
                format!(
                    "evaluation #{i} of {} after {failed} failed evaluations ({unwound} of them unwound by a panic) on the same evaluator: expected {}, got {}",
                    pool[*k].chars().take(200).collect::<String>(),
                    match want { Ok(w) => format!("{} ranges", w.len()), Err(e) => format!("error ({e})") },
                    match got { Ok(g) => format!("{} ranges", g.len()), Err(e) => format!("error ({e})") },
                ),
            );
        }
        if let Err(e) = got {
            failed += 1;
            if e == "PANIC" {
                unwound += 1;
            }
        }
    }
    ctx.nontrivial = true;
    if unwound >= 16 {
        ctx.count("probe.sixteen_or_more_unwound_evaluations_in_one_history");
    }
    if failed > 0 && gots.last().is_some_and(Result::is_ok) {
        ctx.count("probe.clean_evaluation_after_a_failed_one");
    }
    Verdict::Pass
}

fn run_c17(ctx: &mut Ctx) -> Verdict {
    crate::ssim::quiet_panics();
    if ctx.pick(8) == 0 {
        return run_c17_long(ctx);
    }
    if ctx.pick(3) == 0 {
        return run_c17_persistent(ctx);
    }
    let cfg = if ctx.tier == Tier::Thorough { GenCfg { max_as: 30, max_sets: 8, max_routes_per_as: 5, rich_filter_sets: false } } else { GenCfg { max_as: 8, max_sets: 5, max_routes_per_as: 3, rich_filter_sets: false } };
    let db = gen_db(ctx, &cfg);
    let n = 2 + ctx.pick(if ctx.tier == Tier::Thorough { 9 } else { 5 });
    let exprs: Vec<String> = (0..n).map(|_| gen_query_expr(ctx, &db)).collect();
    let n_faults = ctx.tape.weighted(&[3, 3, 2, 1]);
    let mut faults = Vec::new();
    for _ in 0..n_faults {
        let at = ctx.pick(12 * n);
        let kind = *ctx.tape.choose(&[Fault::NotFound, Fault::NotUnique, Fault::Other]);
        faults.push((at, kind));
    }
    let duplicate_objects = ctx.pick(2) == 1;
    ev!(ctx, "db {}", describe(&db).chars().take(2000).collect::<String>());
    ev!(ctx, "exprs {exprs:?} faults {faults:?} duplicate_objects {duplicate_objects}");
    let wants: Vec<Result<Vec<String>, String>> = exprs.iter().map(|e| reference_eval(&db, e)).collect();
    let irr = setup_irr(ctx, db);
    {
        let mut st = irr.lock().unwrap();
        st.faults = faults.iter().copied().collect();
        st.duplicate_objects = duplicate_objects;
    }
    let mut ev = match RpslEvaluator::new("irrd.sim", 43) {
        Ok(e) => e,
        Err(e) => {
            uninstall();
            return Verdict::violation("connect-failed", format!("{e}"));
        }
    };
    let mut spans = Vec::new();
    let mut gots = Vec::new();
    for e in &exprs {
        let a = irr.lock().unwrap().data_queries;
        let r = lib_eval(&mut ev, e);
        let b = irr.lock().unwrap().data_queries;
        spans.push((a, b));
        gots.push(r);
    }
    drop(ev);
    uninstall();
    let st = irr.lock().unwrap();
    ctx.count_n("net.short_read", st.short_reads as u64);
    ctx.count_n("net.partial_write", st.partial_writes as u64);
    for (_, q, f) in &st.faults_fired {
        ctx.count(&format!("fault.irr_{f:?}_on_{}", &q[..2.min(q.len())]));
    }
    let mut any_faulted_before = false;
    for (i, ((want, got), (a, b))) in wants.iter().zip(&gots).zip(&spans).enumerate() {
        let faulted = st.faults_fired.iter().any(|(k, _, _)| k >= a && k < b);
        ev!(ctx, "eval #{i} {} queries [{a},{b}) faulted={faulted} -> {}", exprs[i], match got { Ok(g) => format!("Ok({} ranges)", g.len()), Err(e) => format!("Err({e})") });
        if faulted {
            any_faulted_before = true;
            ctx.count(if got.is_ok() { "outcome.faulted_eval_ok" } else { "outcome.faulted_eval_err" });
            continue;
        }
        if any_faulted_before {
            ctx.nontrivial = true;
            ctx.count("probe.clean_evaluation_after_a_faulted_one");
        }
        if i > 0 {
            ctx.nontrivial = true;
        }
        let same = match (want, got) {
            (Ok(w), Ok(g)) => w == g,
            (Err(_), Err(_)) => true,
            _ => false,
        };
        if !same {
            let class = if any_faulted_before { "history-dependent-result/after-fault" } else { "history-dependent-result" };
            return Verdict::violation(
                class,
                format!(
                    "evaluation #{i} of {} on a connection that had evaluated {:?} before: expected {}, got {}",
                    exprs[i],
                    &exprs[..i],
                    match want { Ok(w) => format!("{} ranges {:?}", w.len(), w.iter().take(4).collect::<Vec<_>>()), Err(e) => format!("error ({e})") },
                    match got { Ok(g) => format!("{} ranges {:?}", g.len(), g.iter().take(4).collect::<Vec<_>>()), Err(e) => format!("error ({e})") },
                ),
            );
        }
    }
    Verdict::Pass
}

const COMPONENTS: &[(&str, &str)] = &[
    ("bgpfu-lib query.rs (RpslEvaluator, resolvers)", "real"),
    ("rpsl expression evaluation, generic-ip set algebra", "real (trusted: also used by the reference)"),
    ("irrc pipeline, queue, response parser", "real (vendored copy; only the socket is replaced)"),
    ("irrc TCP socket", "stub: in-memory stream with seeded short reads and partial writes"),
    ("IRRd", "model: FakeIrrd over a generated database"),
];

const COMPONENTS_C11: &[(&str, &str)] = &[
    ("bgpfu-lib query.rs (RpslEvaluator, resolvers)", "real"),
    ("rpsl expression evaluation, generic-ip set algebra", "real (trusted: also used by the reference)"),
    ("irrc pipeline, queue, response parser", "real (vendored copy; only the socket is replaced)"),
    ("irrc TCP socket", "15 runs in 16: stub (in-memory stream with seeded short reads and partial writes); 1 run in 16: real loopback TCP"),
    ("cli/src/cli.rs + cli/src/bin/bgpfu.rs (argument parsing, evaluation, printing of the ranges)", "real, 1 run in 16: target/release/bgpfubin (the repository's bin source) as a child process; its stdout is compared with the reference"),
    ("IRRd", "model: FakeIrrd over a generated database (in-memory, or served on a loopback TCP socket with seeded response segmentation)"),
];

pub static C11: PropSpec = PropSpec {
    id: "C11",
    simulator: "I-sim",
    level: "exploration",
    runs: |t| if t == Tier::Thorough { 4_000_000 } else { 30_000 },
    enumerated: |_| 0,
    run: run_c11,
    rule: "generated IRR database (nested and cyclic as-sets, hierarchical names, unknown nested sets, ASes with only IPv4 / only IPv6 / no routes, duplicate prefixes, nested route-sets, filter-sets referring to other names, in one run of four 1-4 filter-sets some of which hold unevaluable constructs or a literal list of 300-1200 prefixes (5-20 KB of object text); thorough: an as-set with up to 2600 members, crossing irrc's 1000-in-flight window) and an mp-filter expression over its names (AND/OR/NOT, parentheses, literal prefix sets, all range operators, occasionally unknown names); responses are cut by seeded read sizes (1-7 bytes / mixed / whole) and writes may be partial. One run in 40 is a C01-style history of real agent runs (router state == reference set split by family). One run in six evaluates another (possibly unevaluable) expression on the same evaluator first. One run in 16 evaluates through the `bgpfu` executable (child process, loopback TCP to FakeIrrd) and compares its printed ranges. Oracle: ranges equal the reference evaluation (rpsl's evaluator over a resolver that reads the database directly). Non-trivial = the reference set is non-empty; distinct = distinct event-log hash",
    components: COMPONENTS_C11,
    assumptions: &[
        "rpsl expression semantics and generic-ip set algebra are trusted (used on both sides)",
        "as defined by bgpfu-lib, an unknown route-set or filter-set denotes the empty set, an unknown as-set makes the evaluation fail",
        "the agent half (installed filters equal the same set split by family) is checked by C01 and, through the same scenario and oracle, by one C11 run in 40",
        "the bgpfu child process runs on the real clock and with its own hash seeds; only its output and the sorted list of its queries enter the event log, and a process still running after 15 s is reported as cli-stuck",
    ],
    watchdog_s: 60,
    stuck_is_verdict: false,
    serial: false,
};

pub static C17: PropSpec = PropSpec {
    id: "C17",
    simulator: "I-sim",
    level: "exploration",
    runs: |t| if t == Tier::Thorough { 3_000_000 } else { 25_000 },
    enumerated: |_| 0,
    run: run_c17,
    rule: "2-10 expressions evaluated in sequence on one evaluator (one pipelined connection); 0-3 IRR error responses (key not found, not unique, other) injected at seeded query ordinals; filter-set responses optionally carry two objects (the resolver stops at the first); seeded read segmentation. Oracle: every evaluation whose own queries were not faulted equals the reference (= fresh-connection result), in particular those that follow a faulted one. One run in three uses the differential form instead: 1-6 queries (routes of an AS, members of a set) fail every time on every connection, 2-8 (thorough: 2-12) expressions are evaluated on one evaluator and then each on a fresh one; the two results must be the same, also for evaluations that met failing queries themselves. One run in eight is a long history: 12-48 (thorough: 12-101) evaluations on one evaluator drawn from a pool of 2-6 expressions over a database with 1-4 filter-sets, some holding PeerAS / an AS-path regular expression / an attribute match (the evaluation unwinds out of the evaluator, as under the agent's catch_unwind) or a literal list of 300-1200 prefixes; each must equal the reference however many failed or unwound evaluations came before. Non-trivial = at least a second evaluation was checked; distinct = distinct event-log hash",
    components: COMPONENTS,
    assumptions: &["an evaluation one of whose own queries was answered with an injected error is not compared (bgpfu-lib sinks per-item errors, so it may succeed with data missing)"],
    watchdog_s: 60,
    stuck_is_verdict: false,
    serial: false,
};
