//! C20, agent part: the repository's agent executable (its own `main`, argument parsing, global
//! subscriber, PEM file readers) is started as a child process with maximum and other verbosities
//! against a `remote` target whose connection attempt fails; the client key file it is pointed at
//! has met a storage fault (torn write, lost or converted line ends, flipped bit, swapped files ...).
//! Everything the process writes to stderr / stdout / its log file is searched for the key.

use std::io::Read;
use std::path::{Path, PathBuf};
use std::process::{Command, Stdio};
use std::time::{Duration, Instant};

use crate::core::{Ctx, Verdict};
use crate::ev;
use crate::rsim::PKI;

use super::c20::{base64, encodings};

static RUN: std::sync::atomic::AtomicU64 = std::sync::atomic::AtomicU64::new(0);

const KEYS: [&str; 3] = ["client.key", "client-ec-sec1.key", "client-rsa-pkcs1.key"];

pub fn agentbin_path() -> PathBuf {
    std::env::current_exe().expect("exe").with_file_name("agentbin")
}

/// the DER of the key in `pem` and the byte range of it that is private
fn der_and_private_range(pem: &str) -> (Vec<u8>, std::ops::Range<usize>) {
    let der = match rustls_pemfile::read_one_from_slice(pem.as_bytes()).expect("pem").expect("item").0 {
        rustls_pemfile::Item::Sec1Key(k) => k.secret_sec1_der().to_vec(),
        rustls_pemfile::Item::Pkcs8Key(k) => k.secret_pkcs8_der().to_vec(),
        rustls_pemfile::Item::Pkcs1Key(k) => k.secret_pkcs1_der().to_vec(),
        _ => Vec::new(),
    };
    if pem.contains("RSA PRIVATE KEY") {
        // RSAPrivateKey ::= version, modulus, publicExponent, privateExponent, primes ...: for a
        // 2048-bit key the public part ends before byte 300
        let r = 300.min(der.len())..der.len();
        return (der, r);
    }
    // EC (SEC1, or SEC1 inside PKCS#8): the private scalar is the 32-byte OCTET STRING `04 20 ...`
    let r = match der.windows(2).position(|w| w == [0x04, 0x20]) {
        Some(p) if der.len() >= p + 34 => p + 2..p + 34,
        _ => 0..der.len(),
    };
    (der, r)
}

/// (what, needle, encoding) triples for the key in `pem`
fn needles(pem: &str) -> Vec<(&'static str, &'static str, String)> {
    let (der, private) = der_and_private_range(pem);
    let mut v: Vec<(&'static str, &'static str, String)> = Vec::new();
    let mut binary: Vec<Vec<u8>> = vec![der.clone(), der[private.clone()].to_vec()];
    // 16-byte windows of the private part catch partial dumps
    let mut at = private.start;
    while at + 16 <= private.end {
        binary.push(der[at..at + 16].to_vec());
        at += 16;
    }
    for b in &binary {
        for (enc, n) in encodings(b) {
            v.push(("tls-client-key", enc, n));
        }
    }
    // the PEM text itself: the body without line ends, and 20-character windows of the part of it
    // that encodes private bytes (character c of the body encodes bits of byte c*6/8)
    let body: String = pem.lines().filter(|l| !l.starts_with("-----")).collect();
    let from = (private.start * 8).div_ceil(6);
    let to = (private.end * 8 / 6).min(body.len());
    let mut c = from;
    while c + 20 <= to {
        v.push(("tls-client-key-pem-text", "clear", body[c..c + 20].to_string()));
        c += 4;
    }
    debug_assert_eq!(base64(&der).trim_end_matches('='), body.trim_end_matches('='));
    v
}

#[derive(Clone, Copy, Debug, PartialEq, Eq)]
enum FileFault {
    Intact,
    Truncated,
    FlattenedSpaces { trailing_lf: bool },
    Concatenated { trailing_lf: bool },
    CrOnly { trailing_lf: bool },
    CrLf,
    BitFlip,
    LeadingGarbage,
    BeginLineTorn,
    EndLineMissing,
    EndLineTorn,
    UnknownLabel,
    Empty,
    Missing,
    IsADirectory,
    SwappedWithCertificate,
    KeyThenCertificate,
    CertificateThenKey,
    LongLines,
    /// the key in DER (binary) form instead of PEM; `as_cert`: the same file is also named as the client certificate
    DerKey { as_cert: bool },
}

fn apply(ctx: &mut Ctx, pem: &str, cert: &str, fault: FileFault) -> Option<Vec<u8>> {
    let lines: Vec<&str> = pem.lines().collect();
    let join = |sep: &str, trailing: bool| {
        let mut s = lines.join(sep);
        if trailing {
            s.push('\n');
        }
        s.into_bytes()
    };
    Some(match fault {
        FileFault::Intact => pem.as_bytes().to_vec(),
        FileFault::Truncated => {
            let at = ctx.pick(pem.len() + 1);
            pem.as_bytes()[..at].to_vec()
        }
        FileFault::FlattenedSpaces { trailing_lf } => join(" ", trailing_lf),
        FileFault::Concatenated { trailing_lf } => join("", trailing_lf),
        FileFault::CrOnly { trailing_lf } => join("\r", trailing_lf),
        FileFault::CrLf => join("\r\n", true),
        FileFault::BitFlip => {
            let mut v = pem.as_bytes().to_vec();
            let at = ctx.pick(v.len());
            v[at] ^= 1 << ctx.pick(8);
            v
        }
        FileFault::LeadingGarbage => {
            let g: &[u8] = *ctx.tape.choose(&[&b"\xEF\xBB\xBF"[..], b"Bag Attributes\n    localKeyID: 01\n", b"\n\n", b"# key for the NETCONF client\n", b" "]);
            [g, pem.as_bytes()].concat()
        }
        FileFault::BeginLineTorn => {
            // the line end behind the BEGIN line (and possibly some dashes) is lost
            let cut = ctx.pick(6);
            let first = &lines[0][..lines[0].len() - cut];
            format!("{first}{}\n", lines[1..].join("\n")).into_bytes()
        }
        FileFault::EndLineMissing => format!("{}\n", lines[..lines.len() - 1].join("\n")).into_bytes(),
        FileFault::EndLineTorn => {
            let last = lines[lines.len() - 1];
            let cut = 1 + ctx.pick(last.len() - 1);
            format!("{}\n{}\n", lines[..lines.len() - 1].join("\n"), &last[..last.len() - cut]).into_bytes()
        }
        FileFault::UnknownLabel => {
            let label = *ctx.tape.choose(&["ENCRYPTED PRIVATE KEY", "OPENSSH PRIVATE KEY", "DSA PRIVATE KEY", "PRIVATE  KEY", "private key"]);
            let mut l: Vec<String> = lines.iter().map(|s| (*s).to_string()).collect();
            let n = l.len();
            l[0] = format!("-----BEGIN {label}-----");
            l[n - 1] = format!("-----END {label}-----");
            format!("{}\n", l.join("\n")).into_bytes()
        }
        FileFault::Empty => Vec::new(),
        FileFault::Missing | FileFault::IsADirectory => return None,
        FileFault::SwappedWithCertificate => pem.as_bytes().to_vec(), // the paths are swapped by the caller
        FileFault::KeyThenCertificate => format!("{pem}{cert}").into_bytes(),
        FileFault::CertificateThenKey => format!("{cert}{pem}").into_bytes(),
        FileFault::DerKey { .. } => der_and_private_range(pem).0,
        FileFault::LongLines => {
            // the same base64 text in lines of another width (legal PEM allows any)
            let body: String = lines[1..lines.len() - 1].concat();
            let w = *ctx.tape.choose(&[16usize, 76, 100, 4096]);
            let wrapped: Vec<String> = body.as_bytes().chunks(w).map(|c| String::from_utf8_lossy(c).into_owned()).collect();
            format!("{}\n{}\n{}\n", lines[0], wrapped.join("\n"), lines[lines.len() - 1]).into_bytes()
        }
    })
}

pub fn strip_ansi(s: &str) -> String {
    let mut out = String::with_capacity(s.len());
    let mut it = s.chars().peekable();
    while let Some(c) = it.next() {
        if c == '\u{1b}' && it.peek() == Some(&'[') {
            it.next();
            for d in it.by_ref() {
                if d.is_ascii_alphabetic() {
                    break;
                }
            }
        } else {
            out.push(c);
        }
    }
    out
}

/// a line of the compact tracing format whose target is a crate outside the repository
fn is_dependency_log_line(line: &str) -> bool {
    let mut w = line.split_whitespace();
    let (Some(_ts), Some(level)) = (w.next(), w.next()) else { return false };
    if !matches!(level, "TRACE" | "DEBUG" | "INFO" | "WARN" | "ERROR") {
        return false;
    }
    // spans ("run:connect:") precede the target; the target is the first token ending in ':' that
    // contains no span separator before "::"-paths; take the first token that looks like a module path
    for t in w.take(4) {
        let t = t.trim_end_matches(':');
        if t.starts_with("bgpfu") || t.starts_with("netconf") {
            return false;
        }
        if t.starts_with("rustls") || t.starts_with("russh") || t.starts_with("tokio") || t.starts_with("mio") || t.starts_with("hyper") {
            return true;
        }
    }
    false
}

pub fn run(ctx: &mut Ctx) -> Verdict {
    let key_name = KEYS[ctx.tape.weighted(&[3, 2, 2])];
    let pem = std::fs::read_to_string(format!("{PKI}/{key_name}")).expect("key fixture");
    let cert = std::fs::read_to_string(format!("{PKI}/client.crt")).expect("client.crt");
    let fault = match ctx.tape.weighted(&[2, 3, 3, 2, 2, 1, 2, 2, 2, 2, 2, 2, 1, 1, 1, 2, 1, 1, 2, 2]) {
        0 => FileFault::Intact,
        1 => FileFault::Truncated,
        2 => FileFault::FlattenedSpaces { trailing_lf: ctx.pick(2) == 0 },
        3 => FileFault::Concatenated { trailing_lf: ctx.pick(2) == 0 },
        4 => FileFault::CrOnly { trailing_lf: ctx.pick(2) == 0 },
        5 => FileFault::CrLf,
        6 => FileFault::BitFlip,
        7 => FileFault::LeadingGarbage,
        8 => FileFault::BeginLineTorn,
        9 => FileFault::EndLineMissing,
        10 => FileFault::EndLineTorn,
        11 => FileFault::UnknownLabel,
        12 => FileFault::Empty,
        13 => FileFault::Missing,
        14 => FileFault::IsADirectory,
        15 => FileFault::SwappedWithCertificate,
        16 => FileFault::KeyThenCertificate,
        17 => FileFault::CertificateThenKey,
        18 => FileFault::LongLines,
        _ => FileFault::DerKey { as_cert: ctx.pick(3) != 0 },
    };
    let verbosity: &[&str] = match ctx.tape.weighted(&[5, 2, 2, 1, 1, 1, 3]) {
        6 => &["-vvvv"],
        0 => &["-vvv"],
        1 => &["-vv"],
        2 => &["-v"],
        3 => &[],
        4 => &["-q"],
        _ => &["-qq"],
    };
    let rust_log: Option<&str> = *ctx.tape.choose(&[None, None, Some("trace"), Some("debug,rustls=off"), Some("bgpfu_junos_agent=trace")]);
    let backtrace = ctx.pick(2) == 1;
    let daemon = ctx.chance(1, 3);
    let log_to_file = ctx.chance(1, 4);
    let contents = apply(ctx, &pem, &cert, fault);
    ev!(ctx, "agent binary: key {key_name} fault {fault:?} verbosity {verbosity:?} RUST_LOG {rust_log:?} backtrace {backtrace} daemon {daemon} log_to_file {log_to_file}");
    ctx.count(&format!("fault.key_file.{}", format!("{fault:?}").split([' ', '{']).next().unwrap_or("")));
    ctx.count(if daemon { "runs.agent-binary.daemon" } else { "runs.agent-binary.one-shot" });

    let dir = std::env::temp_dir().join(format!("bgpfu-dst-c20-{}-{}", std::process::id(), RUN.fetch_add(1, std::sync::atomic::Ordering::Relaxed)));
    let _ = std::fs::remove_dir_all(&dir);
    if let Err(e) = std::fs::create_dir_all(&dir) {
        return Verdict::violation("harness-error", format!("create {dir:?}: {e}"));
    }
    struct Cleanup(PathBuf);
    impl Drop for Cleanup {
        fn drop(&mut self) {
            let _ = std::fs::remove_dir_all(&self.0);
        }
    }
    let _cleanup = Cleanup(dir.clone());
    let key_path = dir.join("client.key");
    match (fault, &contents) {
        (FileFault::IsADirectory, _) => {
            let _ = std::fs::create_dir_all(&key_path);
        }
        (_, Some(c)) => {
            if let Err(e) = std::fs::write(&key_path, c) {
                return Verdict::violation("harness-error", format!("write key file: {e}"));
            }
        }
        _ => {}
    }
    let cert_path = PathBuf::from(format!("{PKI}/client.crt"));
    let (cert_arg, key_arg): (&Path, &Path) = match fault {
        FileFault::SwappedWithCertificate => (&key_path, &cert_path),
        FileFault::DerKey { as_cert: true } => (&key_path, &key_path),
        _ => (&cert_path, &key_path),
    };
    let log_file = dir.join("agent.log");
    let mut cmd = Command::new(agentbin_path());
    cmd.env_clear().env("RUST_BACKTRACE", if backtrace { "1" } else { "0" }).current_dir(&dir);
    if let Some(l) = rust_log {
        cmd.env("RUST_LOG", l);
    }
    cmd.args(["-f", if daemon { "3600" } else { "0" }]).args(verbosity);
    if log_to_file {
        cmd.arg("-l").arg(&log_file);
    }
    cmd.args(["remote", "--netconf-host", "127.0.0.1", "--netconf-port", "1", "--ca-cert-path"]).arg(format!("{PKI}/ca.crt"));
    cmd.arg("--client-cert-path").arg(cert_arg).arg("--client-key-path").arg(key_arg);
    cmd.stdin(Stdio::null()).stdout(Stdio::piped()).stderr(Stdio::piped());
    let mut child = match crate::core::spawn_retry(&mut cmd) {
        Ok(c) => c,
        Err(e) => return Verdict::violation("harness-error", format!("spawn {:?}: {e}", agentbin_path())),
    };
    // the readers run on their own threads; a daemon is stopped once it has reported its failed job
    // (it would otherwise sleep through its real-time back-off), a one-shot run ends by itself
    let mut stderr = child.stderr.take().expect("stderr");
    let mut stdout = child.stdout.take().expect("stdout");
    let err_buf = std::sync::Arc::new(std::sync::Mutex::new(Vec::<u8>::new()));
    let err_buf2 = err_buf.clone();
    let t_err = std::thread::spawn(move || {
        let mut b = [0u8; 8192];
        while let Ok(n) = stderr.read(&mut b) {
            if n == 0 {
                break;
            }
            err_buf2.lock().unwrap().extend_from_slice(&b[..n]);
        }
    });
    let t_out = std::thread::spawn(move || {
        let mut v = Vec::new();
        let _ = stdout.read_to_end(&mut v);
        v
    });
    let started = Instant::now();
    let mut exit = None;
    let mut killed = false;
    loop {
        match child.try_wait() {
            Ok(Some(s)) => {
                exit = s.code();
                break;
            }
            Ok(None) => {}
            Err(e) => return Verdict::violation("harness-error", format!("wait: {e}")),
        }
        let reported = if daemon {
            let in_stderr = String::from_utf8_lossy(&err_buf.lock().unwrap()).contains("updater job failed");
            let in_file = log_to_file
                && std::fs::read_dir(&dir).is_ok_and(|d| d.flatten().any(|f| f.file_name().to_string_lossy().starts_with("agent.log") && std::fs::read_to_string(f.path()).is_ok_and(|t| t.contains("updater job failed"))));
            in_stderr || in_file
        } else {
            false
        };
        if reported || started.elapsed() > Duration::from_secs(12) {
            killed = true;
            if !reported {
                ctx.count("probe.agent_binary_stopped_by_timeout");
            }
            // SIGTERM lets the agent's signal handler end the loop and flush its writer
            // SAFETY: our own child, still un-reaped
            unsafe {
                libc::kill(child.id() as i32, libc::SIGTERM);
            }
            let t0 = Instant::now();
            while t0.elapsed() < Duration::from_secs(5) {
                if let Ok(Some(s)) = child.try_wait() {
                    exit = s.code();
                    break;
                }
                std::thread::sleep(Duration::from_millis(5));
            }
            let _ = child.kill();
            let _ = child.wait();
            break;
        }
        std::thread::sleep(Duration::from_millis(2));
    }
    let _ = t_err.join();
    let out = t_out.join().unwrap_or_default();
    let mut text = String::from_utf8_lossy(&err_buf.lock().unwrap()).into_owned();
    text.push('\n');
    text.push_str(&String::from_utf8_lossy(&out));
    if let Ok(d) = std::fs::read_dir(&dir) {
        let mut files: Vec<PathBuf> = d.flatten().map(|f| f.path()).filter(|p| p.file_name().is_some_and(|n| n.to_string_lossy().starts_with("agent.log"))).collect();
        files.sort();
        for f in files {
            text.push('\n');
            text.push_str(&String::from_utf8_lossy(&std::fs::read(f).unwrap_or_default()));
        }
    }
    let text = strip_ansi(&text);
    ctx.count_n("probe.log_bytes_captured", text.len() as u64);
    ctx.nontrivial = !text.trim().is_empty() || verbosity.first().is_some_and(|v| v.starts_with("-q"));
    let failure_reported = text.contains("failed to establish NETCONF session") || text.contains("error:");
    ev!(ctx, "exit {exit:?} killed {killed} failure reported {failure_reported}");
    if text.contains("failed to decode PEM") || text.contains("no PEM section") || text.contains("expected private key") || text.contains("expected X.509") {
        ctx.count("probe.agent_rejected_the_key_or_certificate_file");
    }
    if text.contains("onnection refused") {
        ctx.count("probe.agent_accepted_the_files_and_failed_to_connect");
    }
    for (what, enc, needle) in needles(&pem) {
        if needle.len() < 12 {
            continue;
        }
        for line in text.lines().filter(|l| l.contains(&needle)) {
            let shown: String = line.chars().take(400).collect();
            if is_dependency_log_line(line) {
                ctx.note(&format!("a dependency's log line in the agent's output contains the {what} ({enc})"));
                continue;
            }
            let site = if line.contains("section end") {
                "pem-section-end-echo"
            } else if line.contains("illegal section start") {
                "pem-section-start-echo"
            } else if line.contains("first line") || line.contains("no PEM section") {
                "pem-no-section-echo"
            } else {
                "other"
            };
            return Verdict::violation(
                format!("secret-in-agent-output/{what}/{site}"),
                format!("key file {key_name} after {fault:?}, arguments {verbosity:?}, RUST_LOG {rust_log:?}, daemon {daemon}: the {what} appears ({enc}) in the agent's output: {shown}"),
            );
        }
    }
    Verdict::Pass
}
