//! C06 (message boundaries do not depend on segmentation) and C07 (peer disconnect surfaces as
//! an error, never a hang or busy loop) — R-sim over the real TLS, SSH and local transports.

use crate::core::{Ctx, PropSpec, Tier, Verdict};
use crate::ev;
use crate::rsim::{hello_msg, reply_msg, run_scenario, CloseKind, Kind, Outcome, Res, Scenario, Step, MARKER};
use crate::ssim::{CAP_BASE10, CAP_JUNOS};

const KINDS: [Kind; 3] = [Kind::Tls, Kind::Local, Kind::Ssh];
const SILENCE_MS: u64 = 400;
const PROMPT_NS: u64 = 100_000_000;

fn chunks(stream: &[u8], cuts: &[usize]) -> Vec<Vec<u8>> {
    let mut cuts: Vec<usize> = cuts.iter().copied().filter(|c| *c > 0 && *c < stream.len()).collect();
    cuts.sort_unstable();
    cuts.dedup();
    let mut out = Vec::new();
    let mut prev = 0;
    for c in cuts {
        out.push(stream[prev..c].to_vec());
        prev = c;
    }
    out.push(stream[prev..].to_vec());
    out
}

/// Build the peer script: hello (cut), wait for the client's hello and requests, then the reply
/// stream (cut); after every chunk that completes one or more replies: a mark and a silence.
fn segmentation_scenario(kind: Kind, hello_cuts: &[usize], replies: &[Vec<u8>], reply_cuts: &[usize], label: String) -> Scenario {
    segmentation_scenario_with_hello(kind, hello_msg(&[CAP_BASE10, CAP_JUNOS]), hello_cuts, replies, reply_cuts, label)
}

pub(crate) fn segmentation_scenario_with_hello(kind: Kind, hello: Vec<u8>, hello_cuts: &[usize], replies: &[Vec<u8>], reply_cuts: &[usize], label: String) -> Scenario {
    let mut steps: Vec<Step> = chunks(&hello, hello_cuts).into_iter().map(Step::Chunk).collect();
    steps.push(Step::WaitClientMessages(1 + replies.len()));
    let stream: Vec<u8> = replies.concat();
    let mut ends = Vec::new();
    let mut acc = 0;
    for r in replies {
        acc += r.len();
        ends.push(acc);
    }
    let mut written = 0;
    let mut next_msg = 0;
    for c in chunks(&stream, reply_cuts) {
        written += c.len();
        steps.push(Step::Chunk(c));
        let mut completed = false;
        while next_msg < ends.len() && ends[next_msg] <= written {
            steps.push(Step::Mark(next_msg));
            next_msg += 1;
            completed = true;
        }
        if completed {
            steps.push(Step::SleepMs(SILENCE_MS));
        }
    }
    Scenario { kind, steps, requests: replies.len(), extra_request: false, label, bad_credentials: false, password: crate::rsim::SSH_PASSWORD.to_string(), big_request: 0, slow_peer: false, ssh_setup: Default::default(), abandon_close: false, final_close: false }
}

pub(crate) fn oracle_c06(sc: &Scenario, o: &Outcome) -> Verdict {
    let t = sc.kind.name();
    if let Some(e) = &o.harness_error {
        return Verdict::violation("harness-error", format!("{t}/{}: {e}", sc.label));
    }
    match &o.establish {
        Some(Res::Ok(_)) => {}
        Some(Res::Hang) => return Verdict::violation(format!("hang/{t}/hello"), format!("{}: the hello was delivered completely but session establishment was still pending 5 virtual seconds later", sc.label)),
        other => return Verdict::violation(format!("establishment-failed/{t}"), format!("{}: {other:?}", sc.label)),
    }
    for (k, r) in o.results.iter().enumerate() {
        let tag = format!("TAG-{}-", k + 1);
        match r {
            Res::Ok(v) if v.contains(&tag) => {}
            Res::Ok(v) => return Verdict::violation(format!("wrong-message/{t}"), format!("{}: request #{k} resolved to {v}", sc.label)),
            Res::Err(e) => return Verdict::violation(format!("message-corrupted/{t}"), format!("{}: request #{k} failed: {e}", sc.label)),
            Res::Hang => {
                return Verdict::violation(
                    format!("hang/{t}/reply"),
                    format!("{}: reply #{k} was delivered completely (delimiter included) but the request was still pending 5 virtual seconds later; results {:?}", sc.label, o.results),
                )
            }
        }
        let Some((_, mark)) = o.marks.iter().find(|(m, _)| *m == k) else {
            return Verdict::violation("harness-error", format!("{t}/{}: no mark for reply {k}", sc.label));
        };
        let resolved = o.resolved_ns.get(k).copied().unwrap_or(0);
        if resolved > mark + PROMPT_NS {
            return Verdict::violation(
                format!("needs-further-traffic/{t}"),
                format!("{}: the last byte of reply #{k} was delivered at {:.3} ms, but the request only resolved at {:.3} ms (after later traffic)", sc.label, *mark as f64 / 1e6, resolved as f64 / 1e6),
            );
        }
    }
    if o.results.len() != sc.requests {
        return Verdict::violation("harness-error", format!("{t}/{}: {} results for {} requests", sc.label, o.results.len(), sc.requests));
    }
    Verdict::Pass
}

/// enumerated C06 scenarios per transport
fn c06_enumerated(kind: Kind, j: usize) -> Option<Scenario> {
    let hello = hello_msg(&[CAP_BASE10, CAP_JUNOS]);
    let r = |id: usize, len: usize| reply_msg(id, len);
    let mut j = j;
    // A. single cut around each delimiter (17 positions x {hello, reply 1, reply 2})
    if j < 51 {
        let (which, off) = (j / 17, j % 17);
        let replies = vec![r(1, 140), r(2, 150)];
        return Some(match which {
            0 => {
                let d = hello.len() - MARKER.len();
                segmentation_scenario(kind, &[d + off - 8], &replies, &[replies[0].len()], format!("single cut in hello at delimiter{:+}", off as i64 - 8))
            }
            1 => {
                let d = replies[0].len() - MARKER.len();
                segmentation_scenario(kind, &[], &replies, &[d + off - 8, replies[0].len()], format!("single cut in reply 1 at delimiter{:+}", off as i64 - 8))
            }
            _ => {
                let d = replies[0].len() + replies[1].len() - MARKER.len();
                segmentation_scenario(kind, &[], &replies, &[replies[0].len(), d + off - 8], format!("single cut in reply 2 at delimiter{:+}", off as i64 - 8))
            }
        });
    }
    j -= 51;
    // B. two cuts inside one delimiter
    if j < 21 {
        let mut pairs = Vec::new();
        for a in 0..=6 {
            for b in (a + 1)..=6 {
                pairs.push((a, b));
            }
        }
        let (a, b) = pairs[j];
        let replies = vec![r(1, 140), r(2, 150)];
        let d = replies[0].len() - MARKER.len();
        return Some(segmentation_scenario(kind, &[], &replies, &[d + a, d + b, replies[0].len()], format!("two cuts in the delimiter of reply 1 at +{a} and +{b}")));
    }
    j -= 21;
    // C. groupings of several messages into one unit
    let groupings: [(&[usize], &str); 6] = [(&[], "[1 2]"), (&[0], "[1|2]"), (&[], "[1 2 3]"), (&[0], "[1|2 3]"), (&[1], "[1 2|3]"), (&[0, 1], "[1|2|3]")];
    if j < groupings.len() {
        let (cut_after, name) = groupings[j];
        let n = if j < 2 { 2 } else { 3 };
        let replies: Vec<Vec<u8>> = (1..=n).map(|i| r(i, 120 + 7 * i)).collect();
        let mut ends = Vec::new();
        let mut acc = 0;
        for x in &replies {
            acc += x.len();
            ends.push(acc);
        }
        let cuts: Vec<usize> = cut_after.iter().map(|i| ends[*i]).collect();
        return Some(segmentation_scenario(kind, &[], &replies, &cuts, format!("grouping {name}")));
    }
    j -= groupings.len();
    // D. one-byte chunks
    if j == 0 {
        let replies = vec![r(1, 130), r(2, 131)];
        let total: usize = replies.iter().map(Vec::len).sum();
        let cuts: Vec<usize> = (1..total).collect();
        return Some(segmentation_scenario(kind, &[], &replies, &cuts, "one-byte chunks".into()));
    }
    j -= 1;
    // E. single-unit replies whose delimiter crosses the receive buffer's capacity (1024, then growth)
    let sizes: Vec<usize> = (1018..=1032).chain(2040..=2056).chain([840, 844, 846, 848, 852, 1958, 1960, 1962, 4090, 4096, 4100]).collect();
    if j < sizes.len() {
        let replies = vec![r(1, sizes[j]), r(2, 140)];
        let cuts = vec![replies[0].len()];
        return Some(segmentation_scenario(kind, &[], &replies, &cuts, format!("reply of {} bytes in one unit", sizes[j])));
    }
    j -= sizes.len();
    // F. a backlog: 40 pipelined requests whose replies all arrive before the first one is collected
    // (more than any queue between a transport's receive side and the session holds), then silence
    // (in one unit only: delivered one unit each, with the silence that follows every completed reply, the
    // last replies would arrive later than the five virtual seconds the client's tasks wait for them)
    if j < 1 {
        let replies: Vec<Vec<u8>> = (1..=40).map(|i| r(i, 120 + i)).collect();
        return Some(segmentation_scenario(kind, &[], &replies, &[], "backlog of 40 replies, one unit".to_string()));
    }
    j -= 1;
    // G. SSH: the subsystem writes to its stderr (extended-data packets on the same channel) before a
    // reply, between two replies, or between two data packets of one reply; none of it belongs to the stream
    if j < 3 {
        let replies = vec![r(1, 140), r(2, 150)];
        let cuts = vec![70, replies[0].len()];
        let mut sc = segmentation_scenario(kind, &[], &replies, &cuts, format!("stderr output {}", ["before reply 1", "inside reply 1", "between the replies"][j]));
        // the reply chunks follow the WaitClientMessages step
        let w = sc.steps.iter().position(|s| matches!(s, Step::WaitClientMessages(_))).unwrap_or(0);
        let chunk_at: Vec<usize> = sc.steps.iter().enumerate().filter(|(i, s)| *i > w && matches!(s, Step::Chunk(_))).map(|(i, _)| i).collect();
        let at = chunk_at.get(j).copied().unwrap_or(sc.steps.len());
        sc.steps.insert(at, Step::SshStderr(b"warning: configuration database is large\n]]>]]>".to_vec()));
        return Some(sc);
    }
    None
}

fn c06_enum_per_kind() -> usize {
    let mut n = 0;
    while c06_enumerated(Kind::Tls, n).is_some() {
        n += 1;
    }
    n
}

fn c06_seeded(ctx: &mut Ctx) -> Scenario {
    let kind = KINDS[ctx.tape.weighted(&[6, 6, 1])];
    let n = 1 + ctx.pick(5);
    let replies: Vec<Vec<u8>> = (1..=n)
        .map(|i| {
            let len = match ctx.tape.weighted(&[4, 2, 2, 1]) {
                0 => 110 + ctx.pick(200),
                1 => 1000 + ctx.pick(60),
                2 => 2020 + ctx.pick(60),
                _ => 3000 + ctx.pick(6000),
            };
            reply_msg(i, len)
        })
        .collect();
    let total: usize = replies.iter().map(Vec::len).sum();
    let hello_len = hello_msg(&[CAP_BASE10, CAP_JUNOS]).len();
    let ncuts = ctx.tape.weighted(&[1, 3, 3, 2, 2, 1]);
    let mut cuts = Vec::new();
    let mut ends = Vec::new();
    let mut acc = 0;
    for r in &replies {
        acc += r.len();
        ends.push(acc);
    }
    for _ in 0..ncuts {
        // half of the cuts near a delimiter
        if ctx.pick(2) == 0 {
            let e = *ctx.tape.choose(&ends);
            cuts.push(e.saturating_sub(ctx.pick(9)));
        } else {
            cuts.push(ctx.pick(total));
        }
    }
    // message boundaries are cut or not
    for e in &ends {
        if ctx.pick(3) != 0 {
            cuts.push(*e);
        }
    }
    let hello_cuts: Vec<usize> = (0..ctx.tape.weighted(&[3, 2, 1])).map(|_| if ctx.pick(2) == 0 { hello_len - ctx.pick(9) } else { ctx.pick(hello_len) }).collect();
    segmentation_scenario(kind, &hello_cuts, &replies, &cuts, format!("seeded: {n} replies {:?} cuts {:?} hello cuts {:?}", replies.iter().map(Vec::len).collect::<Vec<_>>(), cuts, hello_cuts))
}

fn run_c06(ctx: &mut Ctx) -> Verdict {
    let sc = match ctx.enum_index {
        Some(i) => {
            let per = c06_enum_per_kind();
            let kind = KINDS[(i as usize / per) % 3];
            match c06_enumerated(kind, i as usize % per) {
                Some(s) => s,
                None => return Verdict::Pass,
            }
        }
        None => {
            // one seeded run in ten: the reader is dropped between two deliveries (C18's real-transport
            // scenario) - bytes of a message already taken off the stream must not be lost with it
            if ctx.tape.weighted(&[9, 1]) == 1 {
                ctx.count("runs.reader_dropped_between_deliveries");
                return super::c18_rsim::run_mode(ctx, super::c18_rsim::Mode::DropReaders);
            }
            // one seeded run in 25: the other direction - a large request (70-260 KiB) on a connection with
            // small socket buffers to a peer that reads slowly: the peer must get the whole message, delimiter
            // included, without needing further traffic from the client
            if ctx.tape.weighted(&[24, 1]) == 1 {
                ctx.count("runs.large_request_to_slow_peer");
                return super::c18_rsim::run_mode(ctx, super::c18_rsim::Mode::BigRequest);
            }
            c06_seeded(ctx)
        }
    };
    ev!(ctx, "scenario {}/{}", sc.kind.name(), sc.label);
    let o = run_scenario(ctx, &sc);
    // (absolute virtual instants are kept out of the event log: establishment of the local and SSH
    // transports spans a process spawn / key exchange whose real duration can shift them by a tick)
    let prompt: Vec<bool> = (0..o.results.len()).map(|k| o.marks.iter().find(|(m, _)| *m == k).is_some_and(|(_, t)| o.resolved_ns.get(k).copied().unwrap_or(u64::MAX) <= t + PROMPT_NS)).collect();
    ev!(ctx, "establish {:?} results {:?} prompt {:?} client messages {} harness {:?}", o.establish, o.results, prompt, o.client_messages.len(), o.harness_error);
    ctx.sim_time_ns = o.virt_ns;
    ctx.nontrivial = true;
    ctx.count(&format!("runs.{}", sc.kind.name()));
    let chunks = sc.steps.iter().filter(|s| matches!(s, Step::Chunk(_))).count();
    ctx.count_n("net.chunks_delivered", chunks as u64);
    oracle_c06(&sc, &o)
}

// ---------------------------------------------------------------------------------------------
// C07
// ---------------------------------------------------------------------------------------------

#[derive(Clone, Copy, Debug, PartialEq, Eq)]
enum Point {
    BeforeHello,
    InsideHello,
    AfterHelloIdle,
    BetweenRequestAndReply,
    InsideReply,
    AfterSomeReplies,
    /// the client has sent <close-session/> (its last request); the peer goes away instead of answering
    AfterCloseSessionRequest,
}

const POINTS: [Point; 7] = [Point::BeforeHello, Point::InsideHello, Point::AfterHelloIdle, Point::BetweenRequestAndReply, Point::InsideReply, Point::AfterSomeReplies, Point::AfterCloseSessionRequest];

fn close_kinds(kind: Kind) -> &'static [CloseKind] {
    match kind {
        Kind::Tls => &[CloseKind::Clean, CloseKind::HalfClean, CloseKind::Abort],
        Kind::Ssh => &[CloseKind::SshEofOnly, CloseKind::HalfClean, CloseKind::Clean, CloseKind::SshDisconnect, CloseKind::Abort],
        Kind::Local => &[CloseKind::Clean, CloseKind::Abort],
    }
}

fn close_name(kind: Kind, c: CloseKind) -> &'static str {
    match (kind, c) {
        (Kind::Tls, CloseKind::Clean) => "close_notify+FIN",
        (Kind::Tls, CloseKind::HalfClean) => "FIN-without-close_notify",
        (Kind::Tls, _) => "RST",
        (Kind::Ssh, CloseKind::SshEofOnly) => "channel-EOF",
        (Kind::Ssh, CloseKind::HalfClean) => "channel-close",
        (Kind::Ssh, CloseKind::Clean) => "channel-EOF+close",
        (Kind::Ssh, CloseKind::SshDisconnect) => "TCP-FIN",
        (Kind::Ssh, _) => "TCP-RST",
        (Kind::Local, CloseKind::Abort) => "child-killed",
        (Kind::Local, _) => "EOF-on-stdout",
    }
}

fn disconnect_scenario(kind: Kind, point: Point, outstanding: usize, close: CloseKind, cut: usize) -> Scenario {
    let hello = hello_msg(&[CAP_BASE10, CAP_JUNOS]);
    let mut steps = Vec::new();
    let mut requests = outstanding;
    match point {
        Point::BeforeHello => {
            steps.push(Step::Close(close));
            requests = 0;
        }
        Point::InsideHello => {
            let at = 1 + cut % (hello.len() - 1);
            steps.push(Step::Chunk(hello[..at].to_vec()));
            steps.push(Step::Close(close));
            requests = 0;
        }
        Point::AfterHelloIdle => {
            steps.push(Step::Chunk(hello));
            steps.push(Step::WaitClientMessages(1));
            steps.push(Step::Close(close));
            requests = 0;
        }
        Point::BetweenRequestAndReply => {
            steps.push(Step::Chunk(hello));
            steps.push(Step::WaitClientMessages(1 + outstanding));
            steps.push(Step::Close(close));
        }
        Point::InsideReply => {
            steps.push(Step::Chunk(hello));
            steps.push(Step::WaitClientMessages(1 + outstanding));
            let r = reply_msg(1, 150);
            let at = 1 + cut % (r.len() - 1);
            steps.push(Step::Chunk(r[..at].to_vec()));
            steps.push(Step::Close(close));
        }
        Point::AfterCloseSessionRequest => {
            steps.push(Step::Chunk(hello));
            // the client's hello and its <close-session/> request
            steps.push(Step::WaitClientMessages(2));
            steps.push(Step::Close(close));
            requests = 0;
        }
        Point::AfterSomeReplies => {
            steps.push(Step::Chunk(hello));
            steps.push(Step::WaitClientMessages(1 + outstanding));
            let k = 1.max(outstanding / 2);
            for i in 1..=k {
                steps.push(Step::Chunk(reply_msg(i, 140)));
            }
            steps.push(Step::Close(close));
        }
    }
    let extra = !matches!(point, Point::BeforeHello | Point::InsideHello | Point::AfterCloseSessionRequest);
    Scenario {
        kind,
        steps,
        requests,
        extra_request: extra,
        label: format!("{} at {point:?}, {requests} outstanding", close_name(kind, close)),
        bad_credentials: false,
        password: crate::rsim::SSH_PASSWORD.to_string(),
        big_request: 0,
        slow_peer: false,
        ssh_setup: Default::default(),
        abandon_close: false,
        final_close: point == Point::AfterCloseSessionRequest,
    }
}

fn c07_enumerated(i: usize) -> Option<Scenario> {
    let mut all = Vec::new();
    for kind in KINDS {
        for close in close_kinds(kind) {
            for point in POINTS {
                let outs: &[usize] = match point {
                    Point::BeforeHello | Point::InsideHello | Point::AfterHelloIdle | Point::AfterCloseSessionRequest => &[0],
                    Point::AfterSomeReplies => &[2, 3],
                    _ => &[1, 3],
                };
                for o in outs {
                    all.push((kind, point, *o, *close));
                }
            }
        }
    }
    if i < all.len() {
        return all.get(i).map(|(k, p, o, c)| disconnect_scenario(*k, *p, *o, *c, 77));
    }
    // SSH only: the server goes away while the connection is being set up - after it confirmed the
    // session channel, instead of answering the request for the "netconf" subsystem
    let setup = [crate::rsim::SetupClose::ChannelClose, crate::rsim::SetupClose::ChannelEofClose, crate::rsim::SetupClose::Disconnect];
    setup.get(i - all.len()).map(|k| {
        let mut sc = disconnect_scenario(Kind::Ssh, Point::BeforeHello, 0, CloseKind::Clean, 0);
        sc.ssh_setup.at_subsystem = Some(*k);
        sc.label = format!("{k:?} instead of the subsystem reply at BeforeHello, 0 outstanding");
        sc
    })
}

fn c07_enum_count() -> usize {
    let mut n = 0;
    while c07_enumerated(n).is_some() {
        n += 1;
    }
    n
}

fn oracle_c07(sc: &Scenario, o: &Outcome) -> Verdict {
    let t = sc.kind.name();
    if let Some(e) = &o.harness_error {
        return Verdict::violation("harness-error", format!("{t}/{}: {e}", sc.label));
    }
    let closed_during_establishment = sc.label.contains("BeforeHello") || sc.label.contains("InsideHello");
    match &o.establish {
        Some(Res::Hang) => return Verdict::violation(format!("hang/{t}/establishment"), format!("{}: session establishment was still pending 5 virtual seconds after the peer closed", sc.label)),
        Some(Res::Ok(_)) if closed_during_establishment => return Verdict::violation(format!("established-on-closed-connection/{t}"), sc.label.clone()),
        Some(Res::Err(_)) if closed_during_establishment => return Verdict::Pass,
        Some(Res::Err(e)) => return Verdict::violation("harness-error", format!("{t}/{}: establishment failed although the hello was sent: {e}", sc.label)),
        None => return Verdict::violation("harness-error", format!("{t}/{}: no establishment result", sc.label)),
        Some(Res::Ok(_)) => {}
    }
    // replies that had fully arrived before the close may complete Ok
    let full = sc.steps.iter().filter(|s| matches!(s, Step::Chunk(c) if c.ends_with(MARKER) && c.starts_with(b"<rpc-reply"))).count();
    for (k, r) in o.results.iter().enumerate() {
        match r {
            Res::Hang => {
                return Verdict::violation(format!("hang/{t}/pending-request"), format!("{}: request #{k} was still pending 5 virtual seconds after the peer closed; results {:?}", sc.label, o.results))
            }
            Res::Ok(v) => {
                if k >= full {
                    return Verdict::violation(format!("success-on-closed-connection/{t}"), format!("{}: request #{k} succeeded ({v}) although its reply never arrived", sc.label));
                }
            }
            Res::Err(_) => {}
        }
    }
    if sc.final_close {
        return match &o.close {
            Some(Res::Err(_)) => Verdict::Pass,
            Some(Res::Hang) => Verdict::violation(format!("hang/{t}/close-session"), format!("{}: close() was still pending 5 virtual seconds after the peer had gone away without answering", sc.label)),
            Some(Res::Ok(_)) => Verdict::violation(format!("success-on-closed-connection/{t}/close-session"), format!("{}: the peer went away without answering <close-session/>, but close() reported success", sc.label)),
            None => Verdict::violation("harness-error", format!("{t}/{}: close() produced no result", sc.label)),
        };
    }
    match &o.extra {
        Some(Res::Hang) => Verdict::violation(format!("hang/{t}/subsequent-request"), format!("{}: a request issued after the peer had closed was still pending 5 virtual seconds later", sc.label)),
        Some(Res::Ok(v)) => Verdict::violation(format!("success-on-closed-connection/{t}"), format!("{}: a request issued after the close succeeded: {v}", sc.label)),
        Some(Res::Err(_)) => Verdict::Pass,
        None if sc.extra_request => Verdict::violation("harness-error", format!("{t}/{}: the subsequent request produced no result", sc.label)),
        None => Verdict::Pass,
    }
}

/// C14 over the real transports: the hello or a reply is cut short and the peer then goes away.
/// The affected calls must return an error in bounded time; a receive loop that keeps polling a
/// dead stream is caught by the worker watchdog.
pub(crate) fn truncated_then_closed(ctx: &mut Ctx) -> Verdict {
    let kind = KINDS[ctx.tape.weighted(&[4, 4, 3])];
    let closes = close_kinds(kind);
    let close = closes[ctx.pick(closes.len())];
    let point = if ctx.pick(3) == 0 { Point::InsideHello } else { Point::InsideReply };
    let outstanding = 1 + ctx.pick(3);
    let cut = ctx.pick(400);
    let sc = disconnect_scenario(kind, point, outstanding, close, cut);
    ev!(ctx, "scenario {}/{}", sc.kind.name(), sc.label);
    let o = run_scenario(ctx, &sc);
    ev!(ctx, "establish {:?} results {:?} extra {:?}", o.establish, o.results, o.extra);
    ctx.sim_time_ns = o.virt_ns;
    ctx.nontrivial = true;
    ctx.count(&format!("runs.real-transport.{}", sc.kind.name()));
    ctx.count("fault.message_cut_short_then_peer_gone_on_real_transport");
    oracle_c07(&sc, &o)
}

fn run_c07(ctx: &mut Ctx) -> Verdict {
    let sc = match ctx.enum_index {
        Some(i) if i as usize >= c07_enum_count() => return super::c07_proc::run(ctx, i - c07_enum_count() as u64),
        Some(i) => match c07_enumerated(i as usize) {
            Some(s) => s,
            None => return Verdict::Pass,
        },
        None => {
            let kind = KINDS[ctx.tape.weighted(&[5, 5, 1])];
            let closes = close_kinds(kind);
            let close = closes[ctx.pick(closes.len())];
            let point = POINTS[ctx.pick(POINTS.len())];
            let outstanding = 1 + ctx.pick(4);
            let cut = ctx.pick(400);
            disconnect_scenario(kind, point, outstanding, close, cut)
        }
    };
    ev!(ctx, "scenario {}/{}", sc.kind.name(), sc.label);
    let o = run_scenario(ctx, &sc);
    ev!(ctx, "establish {:?} results {:?} extra {:?}", o.establish, o.results, o.extra);
    ctx.sim_time_ns = o.virt_ns;
    ctx.nontrivial = true;
    ctx.count(&format!("runs.{}", sc.kind.name()));
    ctx.count(&format!("fault.close.{}", sc.label.split(' ').next().unwrap_or("")));
    oracle_c07(&sc, &o)
}

const COMPONENTS: &[(&str, &str)] = &[
    ("netconf transport/tls.rs, transport/ssh.rs, transport/junos_local.rs (receive loops, pump task)", "real"),
    ("netconf session layer", "real"),
    ("kernel loopback TCP, pipes, rustls, russh, tokio runtime + IO driver (current_thread, paused clock)", "real"),
    ("peer", "scripted: tokio-rustls acceptor / russh server / fakecli helper that hands its stdin+stdout to the harness"),
];

const COMPONENTS_C07: &[(&str, &str)] = &[
    ("netconf transport/tls.rs, transport/ssh.rs, transport/junos_local.rs (receive loops, pump task)", "real"),
    ("netconf session layer", "real"),
    ("kernel loopback TCP, pipes, rustls, russh, tokio runtime + IO driver (current_thread, paused clock)", "real"),
    ("peer", "scripted: tokio-rustls acceptor / russh server / fakecli helper that hands its stdin+stdout to the harness"),
    ("agent executable: task.rs (Updater::run, Loop::start), policies/*, netconf client over TLS, bgpfu-lib + irrc over TCP", "real, 15 enumerated job-level scenarios: target/release/agentbin as a child process on the real clock"),
    ("router / IRRd of the job-level scenarios", "models: FakeJunos behind a tokio-rustls listener, FakeIrrd on a loopback TCP socket (optionally silent)"),
];

pub static C06: PropSpec = PropSpec {
    id: "C06",
    simulator: "R-sim",
    level: "fault_enumeration",
    runs: |t| if t == Tier::Thorough { 300_000 } else { 500 },
    enumerated: |_| 3 * c06_enum_per_kind() as u64,
    run: run_c06,
    rule: "enumerated per transport (TLS, local CLI, SSH): a two-reply stream with every single cut from 8 bytes before to 8 bytes after each delimiter (hello, reply 1, reply 2), every pair of cuts inside one delimiter, all groupings of 2 and 3 replies into units, one-byte chunks, single-unit replies of 41 sizes around the receive buffer's capacity boundaries, a backlog of 40 pipelined replies (in one unit) that all arrive before the first is collected, output on the SSH subsystem's stderr (extended data) before, inside and between replies; seeded: 1-5 replies of 110..9000 bytes, 0-5 cuts (half of them within 8 bytes of a delimiter), message boundaries cut or merged, hello cut as well; one seeded run in ten drops the reading future between two deliveries (the bytes it had taken off the stream must stay with the transport); one seeded run in 25 is the outgoing direction: a request of 70-260 KiB, in half of these runs over a connection with 4 KiB socket buffers to a TLS peer that reads 4 KiB per virtual millisecond - the peer must frame every request exactly once, complete, without further traffic from the client. One chunk = one TLS record / one SSH CHANNEL_DATA / one pipe write, delivered in lock-step under the paused clock; after each completed reply the peer stays silent for 400 virtual ms. Oracle: every request resolves to its own reply, within 100 virtual ms of the delivery of the last byte of its delimiter. Distinct = distinct event-log hash; every run is non-trivial",
    components: COMPONENTS,
    assumptions: &["Linux delivers loopback TCP and pipe data synchronously with write(); the standing two-worker re-execution check guards the resulting determinism"],
    watchdog_s: 8,
    stuck_is_verdict: true,
    serial: true,
};

pub static C07: PropSpec = PropSpec {
    id: "C07",
    simulator: "R-sim",
    level: "fault_enumeration",
    runs: |t| if t == Tier::Thorough { 8_000 } else { 300 },
    enumerated: |_| c07_enum_count() as u64 + super::c07_proc::scenarios(),
    run: run_c07,
    rule: "enumerated, job level (15 scenarios): the agent executable in daemon mode (real clock) against FakeJunos on a TLS listener and FakeIrrd on loopback TCP; the router closes instead of, or right after, its reply to request 0-4 of the run (open-configuration, the two pipelined get-configs, load, commit) while the IRRd answers normally or has gone silent (an evaluation is then still in progress when the router goes away); the daemon must report the failed job (and announce its retry) within 10 s of the close. enumerated, session level: the peer going away after the client's close-session request instead of answering it (close() must fail); SSH server going away instead of answering the subsystem request (channel close / EOF+close / connection dropped); close point {before hello, inside hello, after hello while idle, between request and reply, inside a reply, after some of the replies} x outstanding requests {0, 1, 2, 3} x close kind per transport (TLS: close_notify+FIN, FIN without close_notify, RST; SSH: channel EOF, channel close, EOF+close, TCP FIN, TCP RST; local: EOF on stdout, child killed); seeded: the same space with 1-4 outstanding requests and seeded cut offsets. Oracle: establishment, every pending request and one request issued afterwards complete with an error (a reply that had fully arrived may succeed) within 5 virtual seconds; a client that stops making virtual-time progress is reported by the real-time watchdog as class 'spin'. Every run is non-trivial",
    components: COMPONENTS_C07,
    assumptions: &["the spin watchdog reads a real clock (8 s without a virtual-time heartbeat); it can only raise a false alarm if the machine stalls that long"],
    watchdog_s: 8,
    stuck_is_verdict: true,
    serial: true,
};
