//! C08: a reply carrying an error is never reported as success — S-sim, generated reply documents.

use std::sync::{Arc, Mutex};

use netconf::message::rpc::operation::{
    junos::{
        load_configuration::{Config, Merge, Xml},
        CloseConfiguration, CommitConfiguration, LoadConfiguration, OpenConfiguration,
    },
    Builder, Datastore, Get, Lock, Opaque,
};
use netconf::{Error, Session};

use crate::core::{Ctx, PropSpec, Tier, Verdict};
use crate::doc::{canonical, gen_rpc_error_with_extras, RpcErr, E, NS};
use crate::ev;
use crate::ssim::{drive, hello_with, Quiescence, SchedCfg, Server, SimTransport, CAP_BASE10, CAP_CANDIDATE, CAP_JUNOS, MARKER};

pub const OPS: [&str; 7] = ["lock", "get", "open-configuration", "close-configuration", "load-configuration", "commit-configuration", "close-session"];

#[derive(Clone, Debug)]
enum Item {
    Err(RpcErr),
    Ok,
    Data,
    Load(Vec<LoadItem>),
}

#[derive(Clone, Debug)]
enum LoadItem {
    Err(RpcErr),
    Ok,
    Count(usize),
}

#[derive(Clone, Debug)]
struct Case {
    op: usize,
    others: usize,
    position: usize,
    items: Vec<Item>,
}

fn gen_case(ctx: &mut Ctx) -> Case {
    let op = ctx.pick(OPS.len());
    let others = ctx.tape.weighted(&[4, 2, 1, 1]);
    // <close-session> can only be issued through Session::close(), which takes the session: it is the last request
    let position = if op == 6 { others } else { ctx.pick(others + 1) };
    let mut uniq = 0;
    let mut last: Option<RpcErr> = None;
    let mut err = |ctx: &mut Ctx| {
        // one error in six repeats the previous one field for field (Junos reports the same error once
        // per affected statement): the reported list must still have one entry per element
        if let Some(prev) = &last {
            if ctx.chance(1, 6) {
                return prev.clone();
            }
        }
        uniq += 1;
        let e = gen_rpc_error_with_extras(ctx, uniq, 2, 6);
        last = Some(e.clone());
        e
    };
    let mut items = Vec::new();
    // typical shapes first (small tape values), free-form sequences otherwise
    let shape = ctx.tape.weighted(&[2, 2, 2, 6]);
    let positive = |op: usize| match op {
        0 | 5 | 6 => Some(Item::Ok),
        1 => Some(Item::Data),
        4 => Some(Item::Load(vec![LoadItem::Ok])),
        _ => None,
    };
    match shape {
        0 => items.extend(positive(op)),
        1 => {
            let n = 1 + ctx.pick(3);
            if op == 4 {
                let mut l: Vec<LoadItem> = (0..n).map(|_| LoadItem::Err(err(ctx))).collect();
                l.push(LoadItem::Count(n));
                items.push(Item::Load(l));
            } else {
                for _ in 0..n {
                    items.push(Item::Err(err(ctx)));
                }
            }
        }
        2 => {
            // errors and/or warnings followed by the positive indication
            let n = 1 + ctx.pick(2);
            if op == 4 {
                let mut l: Vec<LoadItem> = (0..n).map(|_| LoadItem::Err(err(ctx))).collect();
                if ctx.pick(2) == 1 {
                    l.push(LoadItem::Count(n));
                }
                l.push(LoadItem::Ok);
                items.push(Item::Load(l));
            } else {
                for _ in 0..n {
                    items.push(Item::Err(err(ctx)));
                }
                items.extend(positive(op));
            }
        }
        _ => {
            let n = ctx.pick(5);
            for _ in 0..n {
                let it = match ctx.tape.weighted(&[4, 2, 1, if op == 4 { 5 } else { 1 }]) {
                    0 => Item::Err(err(ctx)),
                    1 => Item::Ok,
                    2 => Item::Data,
                    _ => {
                        let m = ctx.pick(5);
                        let mut l = Vec::new();
                        for _ in 0..m {
                            l.push(match ctx.tape.weighted(&[4, 2, 2]) {
                                0 => LoadItem::Err(err(ctx)),
                                1 => LoadItem::Ok,
                                _ => LoadItem::Count(ctx.pick(4)),
                            });
                        }
                        Item::Load(l)
                    }
                };
                items.push(it);
            }
        }
    }
    Case { op, others, position, items }
}

fn reply_elem(id: &str, items: &[Item]) -> E {
    let mut r = E::new(NS, "rpc-reply").attr("message-id", id);
    if items.is_empty() {
        // <rpc-reply ...></rpc-reply>, not the self-closed form (which the library does not read at
        // all: known finding of C13, and then nobody can tell whose reply it was)
        r = r.text("");
    }
    for it in items {
        match it {
            Item::Err(e) => r.push(e.to_elem()),
            Item::Ok => r.push(E::new(NS, "ok")),
            Item::Data => r.push(E::new(NS, "data").kid(E::new("urn:example", "payload").text("P"))),
            Item::Load(l) => {
                let mut lr = E::new(NS, "load-configuration-results");
                for li in l {
                    match li {
                        LoadItem::Err(e) => lr.push(e.to_elem()),
                        LoadItem::Ok => lr.push(E::new(NS, "ok")),
                        LoadItem::Count(n) => lr.push(E::new(NS, "load-error-count").tok(&n.to_string())),
                    }
                }
                r.push(lr);
            }
        }
    }
    r
}

struct Fake {
    case: Case,
    n: usize,
    /// the request whose send reported an error to its caller although the bytes went out: the server
    /// answers it like any other, with the positive reply of the operation under test
    orphan: Option<usize>,
}

impl Server for Fake {
    fn on_message(&mut self, msg: &str) -> Vec<Vec<u8>> {
        let Ok(doc) = crate::xml::parse(msg) else { return vec![] };
        if doc.root.local == "hello" {
            return vec![];
        }
        let id = doc.root.attr("message-id").unwrap_or("0").to_string();
        let k = self.n;
        self.n += 1;
        let body = if k == self.case.position {
            canonical(&reply_elem(&id, &self.case.items))
        } else if Some(k) == self.orphan {
            let positive = match self.case.op {
                1 => vec![Item::Data],
                4 => vec![Item::Load(vec![LoadItem::Ok])],
                2 | 3 => vec![],
                _ => vec![Item::Ok],
            };
            canonical(&reply_elem(&id, &positive))
        } else {
            canonical(&E::new(NS, "rpc-reply").attr("message-id", &id).kid(E::new(NS, "data").kid(E::new("urn:example", "other").text(&format!("OTHER{k}")))))
        };
        vec![format!("{body}{MARKER}").into_bytes()]
    }
}

/// (Ok | Err) rendered for the oracle: for RpcError the per-error Display and Debug strings
#[derive(Clone, Debug)]
pub enum Seen {
    Ok,
    RpcErrors(Vec<(String, String)>),
    OtherErr(String),
}

pub fn classify<T>(r: Result<T, Error>) -> Seen {
    match r {
        Ok(_) => Seen::Ok,
        Err(Error::RpcError(errs)) => Seen::RpcErrors(errs.iter().map(|e| (e.to_string(), format!("{e:?}"))).collect()),
        Err(e) => Seen::OtherErr(format!("{e:?}").chars().take(300).collect()),
    }
}

fn run(ctx: &mut Ctx) -> Verdict {
    let case = gen_case(ctx);
    ev!(ctx, "case op={} others={} position={} items={:?}", OPS[case.op], case.others, case.position, case.items);
    let seen: Arc<Mutex<Vec<(usize, Seen)>>> = Arc::default();
    let others_ok: Arc<Mutex<Vec<(usize, String)>>> = Arc::default();
    let (seen2, others2, case2) = (seen.clone(), others_ok.clone(), case.clone());
    let order: Vec<usize> = (0..=case.others).map(|_| ctx.pick(8)).collect();
    let order2 = order.clone();
    let permute = ctx.pick(2) == 1;
    // one run in six (if there are other requests): the send of one of them reports an I/O error to its
    // caller after the bytes went out; the caller gives that request up and carries on with the session
    let orphan: Option<usize> = if case.others > 0 && ctx.chance(1, 6) {
        let others: Vec<usize> = (0..=case.others).filter(|k| *k != case.position).collect();
        Some(*ctx.tape.choose(&others))
    } else {
        None
    };
    if orphan.is_some() {
        ctx.count("fault.send_error_after_delivery");
    }
    ev!(ctx, "await order draws {order:?}, replies permuted: {permute}, send error after delivery on request {orphan:?}");
    let (q, exec) = drive(
        ctx,
        Box::new(Fake { case: case.clone(), n: 0, orphan }),
        Some(hello_with(&[CAP_BASE10, CAP_CANDIDATE, CAP_JUNOS], "11")),
        SchedCfg { permute, ..SchedCfg::default() },
        move |net, _spawner| {
            Box::pin(async move {
                let case = case2;
                let net2 = net.clone();
                let mut session = match Session::verif_new(SimTransport(net)).await {
                    Ok(s) => Some(s),
                    Err(e) => {
                        seen2.lock().unwrap().push((usize::MAX, Seen::OtherErr(format!("session: {e:?}"))));
                        return;
                    }
                };
                type F = std::pin::Pin<Box<dyn std::future::Future<Output = Seen> + Send>>;
                let mut futs: Vec<(usize, bool, F)> = Vec::new();
                for k in 0..=case.others {
                    let Some(s) = session.as_mut() else { break };
                    if k != case.position {
                        if Some(k) == orphan {
                            net2.lock().unwrap().send_after.push_back(usize::MAX);
                        }
                        match s.rpc::<Get, _>(|b| b.finish()).await {
                            Ok(f) => futs.push((k, false, Box::pin(async move {
                                match f.await {
                                    Ok(v) => Seen::OtherErr(format!("value {v:?}")),
                                    Err(e) => Seen::OtherErr(format!("error {e:?}")),
                                }
                            }))),
                            Err(e) => others2.lock().unwrap().push((k, format!("send failed {e:?}"))),
                        }
                        continue;
                    }
                    let f: Result<F, Error> = match case.op {
                        0 => s.rpc::<Lock, _>(|b| b.target(Datastore::Running)?.finish()).await.map(|f| Box::pin(async move { classify(f.await) }) as F),
                        1 => s.rpc::<Get, _>(|b| b.finish()).await.map(|f| Box::pin(async move { classify(f.await) }) as F),
                        2 => s.rpc::<OpenConfiguration, _>(|b| b.ephemeral(Some("db")).finish()).await.map(|f| Box::pin(async move { classify(f.await) }) as F),
                        3 => s.rpc::<CloseConfiguration, _>(|b| b.finish()).await.map(|f| Box::pin(async move { classify(f.await) }) as F),
                        4 => s
                            .rpc::<LoadConfiguration<_>, _>(|b| b.source(Config::new(Opaque::from("<configuration/>"), Xml, Merge)).finish())
                            .await
                            .map(|f| Box::pin(async move { classify(f.await) }) as F),
                        5 => s.rpc::<CommitConfiguration, _>(|b| b.finish()).await.map(|f| Box::pin(async move { classify(f.await) }) as F),
                        _ => match session.take() {
                            Some(owned) => owned.close().await.map(|f| Box::pin(async move { classify(f.await) }) as F),
                            None => break,
                        },
                    };
                    match f {
                        Ok(f) => futs.push((k, true, f)),
                        Err(e) => seen2.lock().unwrap().push((k, Seen::OtherErr(format!("send failed: {e:?}")))),
                    }
                }
                // the reply futures are awaited in a seeded order: a reader may take another caller's reply
                // off the transport and has to file it under the right request
                let mut futs = futs;
                for i in (1..futs.len()).rev() {
                    let j = order2.get(i).copied().unwrap_or(0) % (i + 1);
                    futs.swap(i, j);
                }
                for (k, under_test, f) in futs {
                    let v = f.await;
                    if under_test {
                        seen2.lock().unwrap().push((k, v));
                    } else if let Seen::OtherErr(s) = v {
                        others2.lock().unwrap().push((k, s));
                    }
                }
            })
        },
    );
    if let Some((t, m)) = exec.panics.first() {
        return Verdict::violation("panic", format!("task {t} panicked: {m}"));
    }
    if q != Quiescence::Quiet(vec![]) {
        return Verdict::violation("stuck", format!("{q:?}"));
    }
    for (k, s) in others_ok.lock().unwrap().iter() {
        // the reply to a request given up after a send error belongs to nobody: whoever reads it off the
        // transport fails with RequestNotFound, so the other requests are not judged in such a run
        if orphan.is_some() {
            break;
        }
        if !s.contains(&format!("OTHER{k}")) {
            return Verdict::violation("other-request-disturbed", format!("request #{k} resolved to {s}"));
        }
    }
    let seen = seen.lock().unwrap().clone();
    let Some((_, seen)) = seen.into_iter().next() else {
        return Verdict::violation("no-result", "the request under test produced no result".to_string());
    };
    // ---- oracle from the generated document
    let mut all: Vec<&RpcErr> = Vec::new();
    for it in &case.items {
        match it {
            Item::Err(e) => all.push(e),
            Item::Load(l) => {
                for li in l {
                    if let LoadItem::Err(e) = li {
                        all.push(e);
                    }
                }
            }
            _ => {}
        }
    }
    let has_error = all.iter().any(|e| e.is_error);
    let positive = match case.op {
        0 | 5 | 6 => case.items.iter().any(|i| matches!(i, Item::Ok)),
        1 => case.items.iter().any(|i| matches!(i, Item::Data)),
        2 | 3 => true,
        _ => case.items.iter().any(|i| matches!(i, Item::Load(l) if l.iter().any(|li| matches!(li, LoadItem::Ok)))),
    };
    let op = OPS[case.op];
    let docs = canonical(&reply_elem("N", &case.items));
    ctx.nontrivial = !all.is_empty();
    match &seen {
        Seen::Ok => {
            ctx.count("outcome.ok");
            if has_error {
                return Verdict::violation(format!("error-reported-as-success/{op}"), format!("reply with an error-severity rpc-error was reported as success: {docs}"));
            }
            if !positive {
                return Verdict::violation(format!("success-without-positive-indication/{op}"), format!("reply without the positive indication of {op} was reported as success: {docs}"));
            }
        }
        Seen::RpcErrors(list) => {
            ctx.count("outcome.rpc_errors");
            if list.len() != all.len() {
                return Verdict::violation(format!("error-list-mismatch/{op}"), format!("document has {} rpc-error elements, library reports {}: {docs} -> {list:?}", all.len(), list.len()));
            }
            for (i, (e, (shown, debug))) in all.iter().zip(list).enumerate() {
                if let Err(why) = e.matches(shown, debug) {
                    return Verdict::violation(format!("error-list-mismatch/{op}"), format!("rpc-error #{i}: {why}; document {docs}"));
                }
            }
        }
        Seen::OtherErr(_) => ctx.count("outcome.other_error"),
    }
    Verdict::Pass
}

pub static C08: PropSpec = PropSpec {
    id: "C08",
    simulator: "S-sim",
    level: "exploration",
    runs: |t| if t == Tier::Thorough { 30_000_000 } else { 200_000 },
    enumerated: |_| 0,
    run,
    rule: "one request of each reply type (lock, get, open-/close-configuration, load-configuration, commit-configuration, and close-session through Session::close() as the last request) among 0-3 other outstanding requests, replies delivered in order or permuted and reply futures awaited in a seeded order; in one run of six the send of one of the other requests reports an I/O error after its bytes went out (the caller gives it up and carries on; the server answers it with the positive reply of the operation under test, which must not be taken for the reply to a later request); the server's reply is generated from the reply grammar: 0-4 rpc-error elements (all types/tags, severity error/warning, optional children; one in six repeats the previous element field for field; one in six with a vendor child such as Junos's <source-daemon> or an open-ended error-info child, which the library's reader may refuse - the reply must then still not be a success and no error may vanish from the reported list) and positive indications in every order, at top level or inside load-configuration-results with consistent or inconsistent load-error-count. Non-trivial = the document contains at least one rpc-error; distinct = distinct event-log hash (includes the generated document)",
    components: &[
        ("netconf session + message readers (rpc/mod.rs, rpc/error.rs, junos/mod.rs, junos/load_configuration.rs)", "real"),
        ("transport", "stub: in-memory"),
        ("NETCONF server", "model: replies generated from the grammar, delivered through the real receive path"),
    ],
    assumptions: &["decided mainly by generated peer behaviour; the schedule varies only in the order in which the replies are delivered (in order or permuted) and in which the reply futures are awaited (seeded)", "warnings followed by <ok/> may be reported either way (Junos sends them); only error-severity elements forbid success"],
    watchdog_s: 30,
    stuck_is_verdict: false,
    serial: false,
};
