//! C19, process part: the agent executable itself (argument parsing incl. "frequency 0 selects
//! one-shot mode", the real signal handlers, the real clock). Its NETCONF target is a closed
//! loopback port, so every job fails at once; SIGHUP is used to start the next job without waiting
//! for the back-off, and the delays the daemon announces ("trying in N seconds") are checked
//! against the back-off rule. One-shot mode must make exactly one attempt and exit by itself.

use std::io::Read;
use std::process::{Command, Stdio};
use std::sync::{Arc, Mutex};
use std::time::{Duration, Instant};

use crate::core::{Ctx, Verdict};
use crate::ev;
use crate::rsim::PKI;

use super::c20_agent::{agentbin_path, strip_ansi};

const PERIODS: [u64; 6] = [0, 1, 45, 100, 3600, 86_400];
const STEP: Duration = Duration::from_secs(10);

pub fn scenarios(thorough: bool) -> u64 {
    // period x number of failures driven (2..=4) x terminating signal
    if thorough {
        (PERIODS.len() * 3 * 2) as u64
    } else {
        (PERIODS.len() * 2) as u64
    }
}

fn wait_for(buf: &Arc<Mutex<Vec<u8>>>, what: impl Fn(&str) -> bool) -> Option<String> {
    let t0 = Instant::now();
    while t0.elapsed() < STEP {
        crate::core::beat();
        let text = strip_ansi(&String::from_utf8_lossy(&buf.lock().unwrap()));
        if what(&text) {
            return Some(text);
        }
        std::thread::sleep(Duration::from_millis(2));
    }
    None
}

pub fn run(ctx: &mut Ctx, index: u64) -> Verdict {
    let i = index as usize;
    let period = PERIODS[i % PERIODS.len()];
    let j = i / PERIODS.len();
    let signal = if j % 2 == 0 { libc::SIGTERM } else { libc::SIGINT };
    let failures = 2 + (j / 2) % 3;
    ev!(ctx, "agent process: -f {period}, {failures} failing jobs driven by SIGHUP, then signal {signal}");
    ctx.nontrivial = true;
    ctx.count(if period == 0 { "runs.agent-process.one-shot" } else { "runs.agent-process.daemon" });
    let mut cmd = Command::new(agentbin_path());
    cmd.env_clear().env("RUST_BACKTRACE", "0");
    cmd.args(["-f", &period.to_string(), "remote", "--netconf-host", "127.0.0.1", "--netconf-port", "1"]);
    cmd.args(["--ca-cert-path", &format!("{PKI}/ca.crt"), "--client-cert-path", &format!("{PKI}/client.crt"), "--client-key-path", &format!("{PKI}/client.key")]);
    cmd.stdin(Stdio::null()).stdout(Stdio::null()).stderr(Stdio::piped());
    let mut child = match crate::core::spawn_retry(&mut cmd) {
        Ok(c) => c,
        Err(e) => return Verdict::violation("harness-error", format!("spawn {:?}: {e}", agentbin_path())),
    };
    let pid = child.id() as i32;
    let mut stderr = child.stderr.take().expect("stderr");
    let buf: Arc<Mutex<Vec<u8>>> = Arc::default();
    let buf2 = buf.clone();
    let reader = std::thread::spawn(move || {
        let mut b = [0u8; 4096];
        while let Ok(n) = stderr.read(&mut b) {
            if n == 0 {
                break;
            }
            buf2.lock().unwrap().extend_from_slice(&b[..n]);
        }
    });
    let mut wait_exit = |child: &mut std::process::Child| -> Option<std::process::ExitStatus> {
        let t0 = Instant::now();
        while t0.elapsed() < STEP {
            crate::core::beat();
            if let Ok(Some(s)) = child.try_wait() {
                return Some(s);
            }
            std::thread::sleep(Duration::from_millis(2));
        }
        None
    };
    let finish = |child: &mut std::process::Child| {
        let _ = child.kill();
        let _ = child.wait();
    };
    let verdict = (|| {
        if period == 0 {
            // one-shot: one attempt, then the process ends by itself with a failure status
            let Some(status) = wait_exit(&mut child) else {
                return Verdict::violation("one-shot-does-not-exit", "with -f 0 and an unreachable NETCONF server the agent was still running after 10 s".to_string());
            };
            let _ = reader.join();
            let text = strip_ansi(&String::from_utf8_lossy(&buf.lock().unwrap()));
            let attempts = text.matches("starting update").count();
            ev!(ctx, "exit success={} attempts={attempts}", status.success());
            if text.contains("starting updater loop") {
                return Verdict::violation("frequency-zero-runs-daemon", "with -f 0 the agent started its daemon loop".to_string());
            }
            if attempts != 1 {
                return Verdict::violation("one-shot-attempt-count", format!("with -f 0 the agent made {attempts} update attempts"));
            }
            if status.success() {
                return Verdict::violation("one-shot-failure-exits-zero", "the one-shot run failed (server unreachable) but the process exited with status 0".to_string());
            }
            return Verdict::Pass;
        }
        // daemon
        if wait_for(&buf, |t| t.contains("starting updater loop")).is_none() {
            return Verdict::violation("daemon-did-not-start", format!("no 'starting updater loop' line within 10 s with -f {period}; output {:?}", strip_ansi(&String::from_utf8_lossy(&buf.lock().unwrap())).chars().take(300).collect::<String>()));
        }
        let mut delays: Vec<u64> = Vec::new();
        for k in 1..=failures {
            let Some(text) = wait_for(&buf, |t| t.matches("trying in ").count() >= k) else {
                return Verdict::violation(if k == 1 { "first-run-not-immediate" } else { "sighup-not-immediate" }, format!("failing job #{k} was not reported within 10 s (period {period} s, delays so far {delays:?})"));
            };
            delays = text.split("trying in ").skip(1).filter_map(|s| s.split_whitespace().next().and_then(|n| n.parse().ok())).collect();
            if let Ok(Some(s)) = child.try_wait() {
                return Verdict::violation("daemon-exited", format!("the daemon exited ({s}) after a failed job"));
            }
            if k < failures {
                // SAFETY: our own child
                unsafe {
                    libc::kill(pid, libc::SIGHUP);
                }
            }
        }
        ev!(ctx, "announced delays {delays:?}");
        let cap = period.max(60);
        if delays.first() != Some(&60) {
            return Verdict::violation("first-retry-not-one-minute", format!("period {period} s: announced delays {delays:?}"));
        }
        for w in delays.windows(2) {
            if w[1] < w[0] {
                return Verdict::violation("backoff-shrinks", format!("period {period} s: announced delays {delays:?}"));
            }
            if w[1] == w[0] && w[0] < cap {
                return Verdict::violation("backoff-does-not-grow", format!("period {period} s: announced delays {delays:?} (cap {cap})"));
            }
        }
        if let Some(d) = delays.iter().find(|d| **d > cap || **d == 0) {
            return Verdict::violation("backoff-out-of-bounds", format!("period {period} s: announced delay {d} (cap {cap}); all {delays:?}"));
        }
        let jobs = strip_ansi(&String::from_utf8_lossy(&buf.lock().unwrap())).matches("starting updater job").count();
        if jobs != failures {
            return Verdict::violation("job-count", format!("{jobs} jobs started for {failures} triggers (first tick + SIGHUPs); period {period} s"));
        }
        // terminating signal while waiting
        // SAFETY: our own child
        unsafe {
            libc::kill(pid, signal);
        }
        let Some(status) = wait_exit(&mut child) else {
            return Verdict::violation("slow-exit-on-signal", format!("the daemon was still running 10 s after signal {signal}"));
        };
        ev!(ctx, "exit success={}", status.success());
        if !status.success() {
            return Verdict::violation("unclean-exit-on-signal", format!("the daemon ended with {status} after signal {signal}"));
        }
        Verdict::Pass
    })();
    finish(&mut child);
    verdict
}
