//! C05 (each caller gets the reply to its own request) and C18 (abandoning a reply future does
//! not disturb the others) — S-sim.

use std::collections::{BTreeMap, BTreeSet};
use std::future::Future;
use std::pin::Pin;
use std::sync::{Arc, Mutex};

use netconf::message::rpc::operation::{Builder, Datastore, Get, Lock};
use netconf::Session;

use crate::core::{Ctx, PropSpec, Tier, Verdict};
use crate::ev;
use crate::ssim::{hello_with, reply, Exec, Net, Quiescence, SchedCfg, Server, Shared, SimTransport, Spawner, CAP_BASE10};

#[derive(Clone, Copy, Debug, PartialEq, Eq)]
enum Op {
    Get,
    LockOk,
    LockErr,
}

#[derive(Clone, Copy, Debug, PartialEq, Eq)]
enum Place {
    /// awaited by the sender before the next request is sent
    AwaitNow,
    /// kept by the sender and awaited after all requests were sent
    Kept,
    /// moved to a task of its own
    OwnTask,
    /// dropped without ever being polled
    DropUnpolled,
}

#[derive(Clone, Debug)]
struct Req {
    op: Op,
    place: Place,
    stall: usize,
}

#[derive(Clone, Debug)]
struct Plan {
    reqs: Vec<Req>,
    permute: bool,
    spurious: usize,
    join_all: bool,
    bogus_reply: bool,
    max_drops: usize,
    final_request: bool,
    nonce: usize,
    /// (request index, how): that rpc() call is abandoned after its bytes reached the server -
    /// the caller drops the call while the send is still pending (false) or the transport reports a
    /// write error (true). The message-id it used must not be used again.
    abandon: Option<(usize, bool)>,
}

fn gen_plan(ctx: &mut Ctx, drops: bool) -> Plan {
    let max = if ctx.tier == Tier::Thorough { 8 } else { 6 };
    let n = 1 + ctx.tape.weighted(&vec![3; max]);
    let permute = ctx.pick(2) == 1;
    let spurious = if ctx.chance(1, 4) { 1 } else { 0 };
    let join_all = ctx.pick(2) == 1;
    let bogus_reply = !drops && ctx.chance(1, 8);
    let max_drops = if drops { 1 + ctx.pick(2) } else { 0 };
    let mut reqs = Vec::new();
    for _ in 0..n {
        let op = match ctx.tape.weighted(&[5, 1, 2]) {
            0 => Op::Get,
            1 => Op::LockOk,
            _ => Op::LockErr,
        };
        let place = if drops {
            match ctx.tape.weighted(&[4, 2, 2, 1]) {
                0 => Place::OwnTask,
                1 => Place::Kept,
                2 => Place::AwaitNow,
                _ => Place::DropUnpolled,
            }
        } else {
            match ctx.tape.weighted(&[3, 4, 4]) {
                0 => Place::AwaitNow,
                1 => Place::Kept,
                _ => Place::OwnTask,
            }
        };
        let stall = if ctx.chance(1, 5) { 1 + ctx.pick(2) } else { 0 };
        reqs.push(Req { op, place, stall });
    }
    let nonce = 100 + ctx.pick(900);
    let abandon = (!drops && !bogus_reply && n >= 2 && ctx.chance(1, 6)).then(|| (ctx.pick(n - 1), ctx.pick(2) == 1));
    if let Some((k, _)) = abandon {
        reqs[k].stall = 0;
    }
    Plan { reqs, permute, spurious, join_all, bogus_reply, max_drops, final_request: drops, nonce, abandon }
}

/// A correct, responsive server: answers every request once, with a reply carrying a unique tag.
struct Fake {
    plan: Plan,
    /// per received rpc: (wire message-id, tag, op element name)
    seen: Arc<Mutex<Vec<(String, String, String)>>>,
    /// index of a request that was abandoned before it was written (the plan is indexed by issue order)
    unsent: Arc<Mutex<Option<usize>>>,
}

impl Server for Fake {
    fn on_message(&mut self, msg: &str) -> Vec<Vec<u8>> {
        let Ok(doc) = crate::xml::parse(msg) else {
            self.seen.lock().unwrap().push(("<unparseable>".into(), String::new(), msg.chars().take(60).collect()));
            return vec![];
        };
        if doc.root.local == "hello" {
            return vec![];
        }
        let id = doc.root.attr("message-id").unwrap_or("<none>").to_string();
        let op = doc.root.elems().next().map(|e| e.local.clone()).unwrap_or_default();
        let mut seen = self.seen.lock().unwrap();
        let k = seen.len();
        let tag = format!("TAG-{k}-{}", self.plan.nonce);
        let plan_k = k + usize::from(self.unsent.lock().unwrap().is_some_and(|u| k >= u));
        let planned = self.plan.reqs.get(plan_k).map(|r| r.op);
        let body = match (op.as_str(), planned) {
            ("lock", Some(Op::LockOk)) => "<ok/>".to_string(),
            ("lock", _) => format!(
                "<rpc-error><error-type>protocol</error-type><error-tag>lock-denied</error-tag><error-severity>error</error-severity><error-message>{tag}</error-message></rpc-error>"
            ),
            _ => format!("<data><t>{tag}</t></data>"),
        };
        seen.push((id.clone(), tag, op));
        let mut out = vec![reply(&id, &body)];
        if self.plan.bogus_reply && k == 0 {
            out.push(reply("424242", "<data><t>BOGUS-TAG</t></data>"));
        }
        out
    }
}

type StrFut = Pin<Box<dyn Future<Output = String> + Send>>;

/// Resolves to None (dropping the inner future) the first time the inner future is pending.
pub(crate) struct GiveUpWhenPending<F>(pub(crate) Pin<Box<F>>);
impl<F: Future> Future for GiveUpWhenPending<F> {
    type Output = Option<F::Output>;
    fn poll(mut self: Pin<&mut Self>, cx: &mut std::task::Context<'_>) -> std::task::Poll<Self::Output> {
        match self.0.as_mut().poll(cx) {
            std::task::Poll::Ready(v) => std::task::Poll::Ready(Some(v)),
            std::task::Poll::Pending => std::task::Poll::Ready(None),
        }
    }
}
type Results = Arc<Mutex<Vec<(usize, String)>>>;

async fn workload(net: Shared, plan: Plan, results: Results, spawner: Spawner, unsent: Arc<Mutex<Option<usize>>>) {
    let mut session = match Session::verif_new(SimTransport(net.clone())).await {
        Ok(s) => s,
        Err(e) => {
            results.lock().unwrap().push((usize::MAX, format!("session establishment failed: {e:?}")));
            return;
        }
    };
    let mut kept: Vec<(usize, StrFut)> = Vec::new();
    let total = plan.reqs.len() + usize::from(plan.final_request);
    for k in 0..total {
        let (op, place, stall) = match plan.reqs.get(k) {
            Some(r) => (r.op, r.place, r.stall),
            None => {
                // the request issued after everything else (C18: "the session remains usable")
                let pending = std::mem::take(&mut kept);
                if plan.join_all {
                    let (ks, fs): (Vec<_>, Vec<_>) = pending.into_iter().unzip();
                    let vs = futures::future::join_all(fs).await;
                    results.lock().unwrap().extend(ks.into_iter().zip(vs));
                } else {
                    for (k, f) in pending.into_iter().rev() {
                        let v = f.await;
                        results.lock().unwrap().push((k, v));
                    }
                }
                (Op::Get, Place::AwaitNow, 0)
            }
        };
        net.lock().unwrap().send_stalls.push_back(stall);
        if let Some((ka, with_error)) = plan.abandon {
            if ka == k {
                net.lock().unwrap().send_after.push_back(if with_error { usize::MAX } else { 1 });
                // the call is dropped at its first suspension point (the pending flush)
                let before = net.lock().unwrap().received.len();
                let r = GiveUpWhenPending(Box::pin(session.rpc::<Get, _>(|b| b.finish()))).await;
                if net.lock().unwrap().received.len() == before {
                    // given up before anything was written (waiting for a lock): the server never sees it
                    {
                        // its queue entries were not consumed by any send
                        let mut n = net.lock().unwrap();
                        let _ = n.send_stalls.pop_back();
                        let _ = n.send_after.pop_back();
                    }
                    *unsent.lock().unwrap() = Some(k);
                    results.lock().unwrap().push((k, "ABANDONED-UNSENT".to_string()));
                    continue;
                }
                let how = match r {
                    None => "ABANDONED: rpc() call dropped while its send was pending".to_string(),
                    Some(Err(e)) => format!("ABANDONED: rpc() returned {e:?}"),
                    Some(Ok(f)) => {
                        drop(f);
                        "ABANDONED: rpc() completed, reply future dropped".to_string()
                    }
                };
                results.lock().unwrap().push((k, how));
                continue;
            }
            net.lock().unwrap().send_after.push_back(0);
        }
        let fut: StrFut = match op {
            Op::Get => match session.rpc::<Get, _>(|b| b.finish()).await {
                Ok(f) => Box::pin(async move { format!("{:?}", f.await) }),
                Err(e) => {
                    results.lock().unwrap().push((k, format!("send failed: {e:?}")));
                    continue;
                }
            },
            Op::LockOk | Op::LockErr => match session.rpc::<Lock, _>(|b| b.target(Datastore::Running)?.finish()).await {
                Ok(f) => Box::pin(async move { format!("{:?}", f.await) }),
                Err(e) => {
                    results.lock().unwrap().push((k, format!("send failed: {e:?}")));
                    continue;
                }
            },
        };
        match place {
            Place::AwaitNow => {
                let v = fut.await;
                results.lock().unwrap().push((k, v));
            }
            Place::Kept => kept.push((k, fut)),
            Place::OwnTask => {
                let r = results.clone();
                spawner.spawn(format!("F{k}"), true, async move {
                    let v = fut.await;
                    r.lock().unwrap().push((k, v));
                });
            }
            Place::DropUnpolled => drop(fut),
        }
    }
    if plan.join_all {
        let (ks, fs): (Vec<_>, Vec<_>) = kept.into_iter().unzip();
        let vs = futures::future::join_all(fs).await;
        results.lock().unwrap().extend(ks.into_iter().zip(vs));
    } else {
        for (k, f) in kept.into_iter().rev() {
            let v = f.await;
            results.lock().unwrap().push((k, v));
        }
    }
    drop(session);
}

fn run(ctx: &mut Ctx, drops: bool) -> Verdict {
    let plan = gen_plan(ctx, drops);
    ev!(ctx, "plan {:?}", plan);
    let seen = Arc::new(Mutex::new(Vec::new()));
    let unsent_flag: Arc<Mutex<Option<usize>>> = Arc::default();
    let net = Net::new(Box::new(Fake { plan: plan.clone(), seen: seen.clone(), unsent: unsent_flag.clone() }));
    net.lock().unwrap().push_held(hello_with(&[CAP_BASE10], "7"));
    let results: Results = Arc::default();
    let cfg = SchedCfg {
        permute: plan.permute,
        spurious: plan.spurious,
        max_drops: plan.max_drops,
        drop_weight: if drops { 2 } else { 0 },
        max_steps: 20_000,
    };
    let mut exec = Exec::new(net.clone(), cfg);
    let spawner = exec.spawner.clone();
    exec.spawn("main", false, workload(net.clone(), plan.clone(), results.clone(), spawner, unsent_flag));
    let q = exec.run(ctx);

    // ---- oracle over the recorded history
    let seen = seen.lock().unwrap().clone();
    let results = results.lock().unwrap().clone();
    let total = plan.reqs.len() + usize::from(plan.final_request);
    // wire: message-ids pairwise distinct
    let mut ids = BTreeSet::new();
    for (id, _, _) in &seen {
        if !ids.insert(id.clone()) {
            return Verdict::violation("duplicate-message-id", format!("message-id {id} used twice on one session: {:?}", seen.iter().map(|s| &s.0).collect::<Vec<_>>()));
        }
        if id == "<none>" || id == "<unparseable>" {
            return Verdict::violation("request-without-message-id", format!("server received {seen:?}"));
        }
    }
    let dropped: BTreeSet<usize> = exec
        .drops_done
        .iter()
        .filter_map(|n| n.strip_prefix('F').and_then(|k| k.parse().ok()))
        .chain(plan.reqs.iter().enumerate().filter(|(_, r)| r.place == Place::DropUnpolled).map(|(k, _)| k))
        .collect();
    // probes
    let mut parked = 0;
    for (task, id) in &exec.reads {
        let owner_k = seen.iter().position(|s| s.0 == *id);
        let reader_k = task.strip_prefix('F').and_then(|k| k.parse::<usize>().ok());
        if let (Some(o), Some(r)) = (owner_k, reader_k) {
            if o != r {
                parked += 1;
            }
        }
    }
    if parked > 0 {
        ctx.count_n("probe.reader_parked_reply_for_other_waiter", parked);
    }
    if exec.max_held >= 2 {
        ctx.count("probe.two_or_more_replies_in_flight");
    }
    ctx.nontrivial = parked > 0 || exec.max_held >= 2 || !dropped.is_empty();

    let by_k: BTreeMap<usize, &String> = results.iter().map(|(k, v)| (*k, v)).collect();
    if results.len() != by_k.len() {
        return Verdict::violation("result-delivered-twice", format!("{results:?}"));
    }
    if let Some(v) = by_k.get(&usize::MAX) {
        return Verdict::violation("session-establishment-failed", (*v).clone());
    }
    let mut not_found_excuses = usize::from(plan.bogus_reply) + usize::from(plan.abandon.is_some());
    if plan.abandon.is_some() {
        ctx.count("fault.rpc_call_abandoned_after_its_bytes_went_out");
    }
    // a request abandoned before anything was written never reaches the server: later requests are
    // one position earlier in the server's list
    let unsent: Option<usize> = by_k.iter().find(|(_, v)| v.as_str() == "ABANDONED-UNSENT").map(|(k, _)| *k);
    let seen_full = seen.clone();
    let seen: Vec<(String, String, String)> = {
        let mut v = seen_full.clone();
        if let Some(u) = unsent {
            v.insert(u.min(v.len()), ("<never sent>".into(), "<no tag: never sent>".into(), String::new()));
        }
        v
    };
    for (k, v) in &by_k {
        if v.starts_with("ABANDONED") {
            continue;
        }
        let Some((_, tag, _)) = seen.get(*k) else {
            return Verdict::violation("result-without-request", format!("request #{k} resolved to {v} but the server never saw it"));
        };
        // no foreign tag, ever
        for (j, (_, other, _)) in seen.iter().enumerate() {
            if j != *k && v.contains(other.as_str()) {
                return Verdict::violation("wrong-reply", format!("request #{k} (message-id {}) resolved to the reply of request #{j}: {v}", seen[*k].0));
            }
        }
        if v.contains("BOGUS-TAG") {
            return Verdict::violation("foreign-reply-delivered", format!("request #{k} resolved to a reply whose message-id matches no outstanding request: {v}"));
        }
        let op = if *k < plan.reqs.len() { plan.reqs[*k].op } else { Op::Get };
        let ok = match op {
            Op::Get => v.starts_with("Ok(") && v.contains(tag.as_str()),
            Op::LockOk => v.as_str() == "Ok(())",
            Op::LockErr => v.starts_with("Err(RpcError(") && v.contains(tag.as_str()),
        };
        if !ok {
            let abandoned_id = plan.abandon.and_then(|(ka, _)| seen.get(ka)).map(|s| format!("MessageId({})", s.0));
            if v.contains("RequestNotFound") && (v.contains("424242") || abandoned_id.is_some_and(|i| v.contains(&i))) && not_found_excuses > 0 {
                // the caller that happened to read the injected reply with an unknown message-id
                not_found_excuses -= 1;
                ctx.note("reader of an unknown-id reply got RequestNotFound instead of its own reply");
                continue;
            }
            return Verdict::violation(
                if drops { "survivor-got-wrong-result" } else { "unexpected-result" },
                format!("request #{k} ({op:?}, message-id {}) expected tag {tag}, resolved to {v}; dropped={dropped:?}", seen[*k].0),
            );
        }
    }
    match q {
        Quiescence::StepBudget => return Verdict::violation("step-budget-exhausted", format!("no quiescence after {} steps; alive: {:?}", exec.steps, exec.alive())),
        Quiescence::Quiet(alive) => {
            if !alive.is_empty() {
                let missing: Vec<usize> = (0..total).filter(|k| !by_k.contains_key(k) && !dropped.contains(k)).collect();
                return Verdict::violation(
                    if drops { "survivor-stuck-after-drop" } else { "caller-waits-forever" },
                    format!(
                        "quiescent with every request answered, but tasks {alive:?} never completed; unresolved requests {missing:?}; dropped futures {dropped:?}; replies undelivered: {}",
                        net.lock().unwrap().held.len()
                    ),
                );
            }
        }
    }
    for k in 0..total {
        if !by_k.contains_key(&k) && !dropped.contains(&k) {
            return Verdict::violation("result-missing", format!("request #{k} never produced a result although all tasks finished"));
        }
    }
    if drops && plan.final_request && !by_k.contains_key(&plan.reqs.len()) {
        return Verdict::violation("session-unusable-after-drop", "the request issued after the drops did not complete".to_string());
    }
    Verdict::Pass
}

fn run_c05(ctx: &mut Ctx) -> Verdict {
    // one run in 64 uses the real transports (R-sim): pipelined requests whose replies arrive as one
    // byte stream cut at seeded positions (several complete replies in one delivery)
    if ctx.tape.weighted(&[63, 1]) == 1 {
        return super::c18_rsim::run_mode(ctx, super::c18_rsim::Mode::Coalesced);
    }
    // one run in 50 is C18's scenario (reply futures abandoned at their suspension points): a reply
    // that gets lost with an abandoned reader leaves a C05 caller waiting for ever on a responsive server
    if ctx.tape.weighted(&[49, 1]) == 1 {
        ctx.count("runs.with_abandoned_reply_futures");
        return run(ctx, true);
    }
    run(ctx, false)
}

fn run_c18(ctx: &mut Ctx) -> Verdict {
    // one run in 64 uses the real transports (R-sim) instead of the in-memory one
    if ctx.tape.weighted(&[63, 1]) == 1 {
        return super::c18_rsim::run(ctx);
    }
    run(ctx, true)
}

const COMPONENTS: &[(&str, &str)] = &[
    ("netconf session.rs / message/** / capabilities.rs / builders / readers", "real"),
    ("netconf transports (tls.rs, ssh.rs, junos_local.rs)", "stub: in-memory Transport with send back-pressure"),
    ("tokio runtime", "not used: own seeded executor polls the real futures"),
    ("NETCONF server", "model: FakeNetconf (strict XML parser, one tagged reply per request)"),
];

const COMPONENTS_C18: &[(&str, &str)] = &[
    ("netconf session.rs / message/** / capabilities.rs / builders / readers", "real"),
    ("netconf transports (tls.rs, ssh.rs, junos_local.rs)", "63 runs in 64: stub (in-memory Transport with send back-pressure); 1 run in 64: real, against the scripted R-sim peer (tokio-rustls acceptor / russh server / fakecli) on a paused tokio clock"),
    ("executor", "own seeded executor polling the real futures (S-sim runs); tokio current_thread with paused clock (R-sim runs)"),
    ("NETCONF server", "model: FakeNetconf (strict XML parser, one tagged reply per request) / scripted peer"),
];

pub static C05: PropSpec = PropSpec {
    id: "C05",
    simulator: "S-sim + R-sim",
    level: "exploration",
    runs: |t| if t == Tier::Thorough { 30_000_000 } else { 300_000 },
    enumerated: |_| 0,
    run: run_c05,
    rule: "one run in 50: the C18 scenario (reply futures abandoned at their suspension points; the survivors must still get their own replies). One run in 64: 2-4 pipelined requests over the real TLS / SSH / local transport against the scripted peer, the replies (in a seeded order) delivered as one byte stream with 0-3 cuts, i.e. up to all of them in one delivery; every caller must get its own reply and one more request must work. Otherwise: seeded schedules over 1-8 pipelined get/lock requests; each reply future awaited at once, kept and joined, or moved to its own task; replies delivered in order or permuted; send back-pressure; spurious polls. A run is non-trivial when >=2 replies were in flight at a delivery or a reader parked a reply for another waiter; distinct = distinct event-log hash (scheduler actions + messages)",
    components: COMPONENTS_C18,
    assumptions: &["the server answers every request exactly once (responsive server); one run in eight additionally injects a reply with an unknown message-id; in one run in six one rpc() call is abandoned after its bytes reached the server (dropped while the flush is pending, or the transport reports a write error): its message-id must never be used again, and the caller that happens to read the reply nobody waits for may get RequestNotFound (noted, not judged)"],
    watchdog_s: 30,
    stuck_is_verdict: false,
    serial: false,
};

pub static C18: PropSpec = PropSpec {
    id: "C18",
    simulator: "S-sim + R-sim",
    level: "exploration",
    runs: |t| if t == Tier::Thorough { 30_000_000 } else { 300_000 },
    enumerated: |_| 0,
    run: run_c18,
    rule: "the C05 space plus the scheduler action 'drop reply future j' (1-2 drops per run) enabled at every step for every future living in its own task - i.e. at each of its suspension points - and 'drop unpolled'; afterwards one more request is issued. One run in 64 uses the real TLS / SSH / local transport against the scripted peer instead (R-sim): 2-4 pipelined requests, replies in a seeded order and cut into 1-3 chunks, the task awaiting one or two of the replies aborted between two chunks (inside the transport read if it is the reader); survivors must get their own replies and one more request must work. Non-trivial = at least one future was dropped; distinct = distinct event-log hash Over the real transports one run in six abandons the reply future returned by close() instead (it owns the session): the client calls close() with its requests outstanding and drops that future unpolled; every outstanding request must still get its own reply (on the local transport a killed cli helper loses its pipes, as a dead process does)",
    components: COMPONENTS_C18,
    assumptions: &["the server answers every request exactly once", "on the real transports a drop can only be placed between two deliveries of the peer (1 ms of virtual time apart), not between two polls of the client"],
    watchdog_s: 30,
    stuck_is_verdict: false,
    serial: false,
};
