//! C13: parsing is invariant under XML-equivalent serialisations — metamorphic pairs.
//!
//! Every message is parsed twice: serialised canonically and serialised under a seeded
//! composition of information-preserving rewrites. Accept/reject and the parsed value must
//! agree. A divergence is narrowed to a single rewrite site when one suffices; the violation
//! class is (message kind, rewrite, element), so each distinct divergence is its own finding.

use std::collections::BTreeSet;
use std::sync::{Arc, Mutex};

use netconf::message::rpc::operation::{
    junos::{
        load_configuration::{Config, Merge, Xml},
        LoadConfiguration, OpenConfiguration,
    },
    Builder, Datastore, Get, Lock, Opaque,
};
use netconf::Session;

use crate::core::{Ctx, PropSpec, Tier, Verdict};
use crate::doc::{gen_rpc_error, Rw, Ser, Site, Style, ALL_RW, E, JCMD, NS, XNM};
use crate::ev;
use crate::props::c08::{classify, Seen};
use crate::ssim::{drive, hello_with, Quiescence, SchedCfg, Server, SimTransport, CAP_BASE10, CAP_CANDIDATE, CAP_JUNOS, MARKER};

#[derive(Clone, Copy, Debug, PartialEq, Eq)]
enum Kind {
    Hello,
    EmptyReply,
    DataReply,
    BareReply,
    LoadReply,
    Candidates,
    Installed,
}

impl Kind {
    fn name(self) -> &'static str {
        match self {
            Self::Hello => "hello",
            Self::EmptyReply => "rpc-reply(ok)",
            Self::DataReply => "rpc-reply(data)",
            Self::BareReply => "rpc-reply(bare)",
            Self::LoadReply => "rpc-reply(load-configuration)",
            Self::Candidates => "running-configuration",
            Self::Installed => "ephemeral-configuration",
        }
    }
}

fn gen_doc(ctx: &mut Ctx, kind: Kind) -> E {
    let errors = |ctx: &mut Ctx| -> Vec<E> {
        let n = 1 + ctx.pick(2);
        (0..n).map(|i| gen_rpc_error(ctx, i + 1, 1).to_elem()).collect()
    };
    match kind {
        Kind::Hello => {
            let mut caps = E::new(NS, "capabilities");
            let mut uris = vec![CAP_BASE10.to_string(), CAP_JUNOS.to_string()];
            for c in ["urn:ietf:params:netconf:capability:candidate:1.0", "urn:ietf:params:netconf:capability:url:1.0?scheme=http,ftp", "urn:ietf:params:xml:ns:yang:ietf-netconf-monitoring", "urn:ietf:params:netconf:base:1.1"] {
                if ctx.pick(2) == 1 {
                    uris.push(c.to_string());
                }
            }
            for u in &uris {
                caps.push(E::new(NS, "capability").tok(u));
            }
            E::new(NS, "hello").kid(caps).kid(E::new(NS, "session-id").tok(&format!("{}", 1 + ctx.pick(70_000))))
        }
        Kind::EmptyReply => {
            let r = E::new(NS, "rpc-reply").attr("message-id", "1").attr("xmlns:junos", "http://xml.juniper.net/junos/23.1R0/junos");
            if ctx.pick(3) == 0 {
                r.kids(errors(ctx))
            } else {
                r.kid(E::new(NS, "ok"))
            }
        }
        Kind::DataReply => {
            let r = E::new(NS, "rpc-reply").attr("message-id", "1").attr("xmlns:junos", "http://xml.juniper.net/junos/23.1R0/junos");
            match ctx.pick(4) {
                0 => r.kids(errors(ctx)),
                1 => r.kid(E::new(NS, "data")),
                _ => r.kid(E::new(NS, "data").raw("<top xmlns=\"urn:x\"><leaf>v</leaf></top>")),
            }
        }
        Kind::BareReply => {
            let r = E::new(NS, "rpc-reply").attr("message-id", "1").attr("xmlns:junos", "http://xml.juniper.net/junos/23.1R0/junos");
            if ctx.pick(3) == 0 {
                r.kids(errors(ctx))
            } else {
                r
            }
        }
        Kind::LoadReply => {
            let r = E::new(NS, "rpc-reply").attr("message-id", "1").attr("xmlns:junos", "http://xml.juniper.net/junos/23.1R0/junos");
            let mut lr = E::new(NS, "load-configuration-results");
            match ctx.pick(4) {
                0 => {
                    let es = errors(ctx);
                    let n = es.len();
                    lr = lr.kids(es).kid(E::new(NS, "load-error-count").tok(&n.to_string()));
                }
                1 => {
                    // what Junos sends routinely: warnings ("statement not found"), then <ok/>
                    let n = 1 + ctx.pick(2);
                    for i in 0..n {
                        let mut w = gen_rpc_error(ctx, i + 1, 1);
                        w.is_error = false;
                        lr.push(w.to_elem());
                    }
                    lr.push(E::new(NS, "ok"));
                }
                _ => lr.push(E::new(NS, "ok")),
            }
            r.kid(lr)
        }
        Kind::Candidates => {
            let mut po = E::new(XNM, "policy-options");
            let n = 1 + ctx.pick(3);
            for i in 0..n {
                let mut ps = E::new(XNM, "policy-statement").attr("xmlns:jcmd", JCMD);
                let managed = ctx.pick(4) != 0;
                if managed {
                    ps = ps.attr("jcmd:comment", &format!("/* bgpfu-fltr: AS-SET{i} OR AS6500{i} */"));
                } else if ctx.pick(2) == 1 {
                    ps = ps.attr("jcmd:comment", "/* unrelated */");
                }
                if ctx.chance(1, 4) {
                    ps = ps.attr("jcmd:active", if ctx.pick(2) == 1 { "false" } else { "true" });
                }
                ps = ps.kid(E::new(XNM, "name").text(&format!("fltr-{i}")));
                if managed || ctx.pick(2) == 1 {
                    ps = ps.kid(E::new(XNM, "then").kid(E::new(XNM, "reject")));
                }
                po.push(ps);
            }
            E::new(NS, "data").kid(E::new(XNM, "configuration").attr("xmlns:junos", "http://xml.juniper.net/junos/23.1R0/junos").attr("junos:changed-seconds", "1709120869").kid(po))
        }
        Kind::Installed => {
            let mut po = E::new(XNM, "policy-options");
            let n = 1 + ctx.pick(2);
            for i in 0..n {
                let mut ps = E::new(XNM, "policy-statement").kid(E::new(XNM, "name").text(&format!("fltr-{i}")));
                for (fam, pfx, len) in [("inet", "192.0.2.0/24", "/24-/32"), ("inet6", "2001:db8::/32", "/32-/48")] {
                    if ctx.pick(4) == 0 {
                        continue;
                    }
                    let mut from = E::new(XNM, "from").kid(E::new(XNM, "family").tok(fam));
                    for j in 0..(1 + ctx.pick(2)) {
                        let addr = if j == 0 { pfx.to_string() } else if fam == "inet" { "198.51.100.0/24".into() } else { "2001:db8:1::/48".into() };
                        let l = if j == 0 { len } else if fam == "inet" { "/24-/24" } else { "/48-/64" };
                        from.push(
                            E::new(XNM, "route-filter")
                                .kid(E::new(XNM, "address").tok(&addr))
                                .kid(E::new(XNM, "choice-ident").tok("prefix-length-range"))
                                .kid(E::new(XNM, "choice-value").tok(l)),
                        );
                    }
                    ps.push(E::new(XNM, "term").kid(E::new(XNM, "name").tok(fam)).kid(from).kid(E::new(XNM, "then").kid(E::new(XNM, "accept"))));
                }
                ps.push(E::new(XNM, "then").kid(E::new(XNM, "reject")));
                po.push(ps);
            }
            E::new(NS, "data").kid(E::new(XNM, "configuration").kid(po))
        }
    }
}

struct Fake {
    reply: Vec<u8>,
}
impl Server for Fake {
    fn on_message(&mut self, msg: &str) -> Vec<Vec<u8>> {
        if msg.trim_start().starts_with("<hello") {
            return vec![];
        }
        vec![std::mem::take(&mut self.reply)]
    }
}

/// Parse `bytes` as a message of `kind` through the real code; the result is rendered so that
/// equal strings mean "same accept/reject decision and same value".
fn parse(ctx: &mut Ctx, kind: Kind, doc: &str) -> String {
    match kind {
        Kind::Candidates => match agent::verif::read_candidates(doc) {
            Ok(mut v) => {
                v.sort();
                format!("Ok({v:?})")
            }
            Err(_) => "Err".into(),
        },
        Kind::Installed => match agent::verif::read_installed(doc) {
            Ok(mut v) => {
                for p in &mut v {
                    p.1.sort();
                    p.2.sort();
                }
                v.sort();
                format!("Ok({v:?})")
            }
            Err(_) => "Err".into(),
        },
        _ => {
            let out: Arc<Mutex<String>> = Arc::new(Mutex::new("no-result".into()));
            let out2 = out.clone();
            let msg = format!("{doc}{MARKER}").into_bytes();
            let (hello, reply) = if kind == Kind::Hello { (msg, Vec::new()) } else { (hello_with(&[CAP_BASE10, CAP_CANDIDATE, CAP_JUNOS], "3"), msg) };
            let mut sub = Ctx::new(crate::core::Tape::from_tape(Vec::new()), ctx.tier, false);
            let (q, exec) = drive(&mut sub, Box::new(Fake { reply }), Some(hello), SchedCfg::default(), move |net, _| {
                Box::pin(async move {
                    let r = match Session::verif_new(SimTransport(net)).await {
                        Err(_) => "Err".to_string(),
                        Ok(mut s) => {
                            let c = s.context();
                            let est = format!("Ok(sid={} version={} caps={:?})", c.session_id(), c.protocol_version(), c.server_capabilities().iter().map(|c| c.uri().into_owned()).collect::<BTreeSet<_>>());
                            let render = |s: Seen| match s {
                                Seen::Ok => "Ok".to_string(),
                                Seen::RpcErrors(l) => format!("RpcErrors({l:?})"),
                                Seen::OtherErr(_) => "Err".to_string(),
                            };
                            match kind {
                                Kind::Hello => est,
                                Kind::EmptyReply => match s.rpc::<Lock, _>(|b| b.target(Datastore::Running)?.finish()).await {
                                    Ok(f) => render(classify(f.await)),
                                    Err(_) => "send-failed".into(),
                                },
                                Kind::DataReply => match s.rpc::<Get, _>(|b| b.finish()).await {
                                    Ok(f) => match f.await {
                                        Ok(v) => format!("Ok({:?})", v.to_string()),
                                        Err(e) => render(classify::<()>(Err(e))),
                                    },
                                    Err(_) => "send-failed".into(),
                                },
                                Kind::BareReply => match s.rpc::<OpenConfiguration, _>(|b| b.ephemeral(Some("db")).finish()).await {
                                    Ok(f) => render(classify(f.await)),
                                    Err(_) => "send-failed".into(),
                                },
                                _ => match s.rpc::<LoadConfiguration<_>, _>(|b| b.source(Config::new(Opaque::from("<configuration/>"), Xml, Merge)).finish()).await {
                                    Ok(f) => render(classify(f.await)),
                                    Err(_) => "send-failed".into(),
                                },
                            }
                        }
                    };
                    *out2.lock().unwrap() = r;
                })
            });
            if let Some((_, m)) = exec.panics.first() {
                return format!("PANIC({m})");
            }
            if q != Quiescence::Quiet(vec![]) {
                return "STUCK".into();
            }
            let r = out.lock().unwrap().clone();
            r
        }
    }
}

fn site_label(s: &Site) -> String {
    // strip the part after '>' for comments (position), keep the element
    let at = s.at.split('>').next().unwrap_or(&s.at).split('(').next().unwrap_or(&s.at).split('@').next().unwrap_or(&s.at);
    format!("{}/{}", s.rw.name(), at)
}

fn run(ctx: &mut Ctx) -> Verdict {
    let kinds = [Kind::Hello, Kind::EmptyReply, Kind::DataReply, Kind::BareReply, Kind::LoadReply, Kind::Candidates, Kind::Installed];
    let kind = kinds[ctx.pick(kinds.len())];
    let tree = gen_doc(ctx, kind);
    let canonical = Ser::new(Style::Canonical).document(&tree);
    let enabled: Vec<Rw> = ALL_RW.iter().copied().filter(|_| ctx.pick(3) != 0).collect();
    let den = 2 + ctx.pick(6);
    let (styled, applied) = {
        let mut ser = Ser::new(Style::Random { ctx, num: 1, den, enabled });
        let d = ser.document(&tree);
        (d, ser.applied)
    };
    ev!(ctx, "kind {}", kind.name());
    ev!(ctx, "canonical {canonical}");
    ev!(ctx, "rewritten {styled}");
    // the harness's own parser must agree that both are the same document
    match (crate::xml::parse(&canonical), crate::xml::parse(&styled)) {
        (Ok(a), Ok(b)) if a.root.canon_trimmed() == b.root.canon_trimmed() => {}
        (a, b) => return Verdict::violation("harness-error", format!("rewrites changed the information content: {:?} / {:?}", a.map(|d| d.root.canon()), b.map(|d| d.root.canon()))),
    }
    ctx.nontrivial = !applied.is_empty();
    for s in &applied {
        ctx.count(&format!("rewrite.{}", s.rw.name()));
    }
    let base = parse(ctx, kind, &canonical);
    let other = parse(ctx, kind, &styled);
    ev!(ctx, "canonical -> {base}");
    ev!(ctx, "rewritten -> {other}");
    if base.starts_with("PANIC") || other.starts_with("PANIC") {
        return Verdict::violation("panic", format!("{base} / {other}"));
    }
    ctx.count(if base.starts_with("Ok") || base.starts_with("RpcErrors") { "outcome.canonical_accepted" } else { "outcome.canonical_rejected" });
    if base == other {
        return Verdict::Pass;
    }
    // narrow to single rewrite sites; a divergence already listed as a known finding must not
    // hide a different one in the same message
    let known = known_classes();
    let brief = |s: &str| s.chars().take(160).collect::<String>();
    let mut culprits: Vec<(String, String)> = Vec::new();
    let mut innocent: Vec<usize> = Vec::new();
    for s in &applied {
        let single = Ser::new(Style::Only(vec![s.id])).document(&tree);
        let r = parse(ctx, kind, &single);
        if r != base {
            culprits.push((
                format!("{}/{}", kind.name(), site_label(s)),
                format!("canonical form parses to {}; with the single rewrite '{}' at <{}> it parses to {}; rewritten message: {}", brief(&base), s.rw.name(), s.at, brief(&r), brief(&single)),
            ));
        } else {
            innocent.push(s.id);
        }
    }
    // do the rewrites that are harmless one by one diverge together?
    let rest = Ser::new(Style::Only(innocent)).document(&tree);
    if parse(ctx, kind, &rest) != base {
        let mut names: Vec<String> = applied.iter().map(site_label).collect();
        names.sort();
        names.dedup();
        culprits.push((format!("{}/composition", kind.name()), format!("only a composition out of {names:?} diverges: {} vs {}", brief(&base), brief(&other))));
    }
    let pick = culprits.iter().find(|(c, _)| !known.contains(c)).or_else(|| culprits.first());
    match pick {
        Some((class, detail)) => Verdict::violation(class.clone(), detail.clone()),
        None => Verdict::violation(format!("{}/unexplained", kind.name()), format!("{} vs {}", brief(&base), brief(&other))),
    }
}

fn known_classes() -> &'static BTreeSet<String> {
    static KNOWN: std::sync::OnceLock<BTreeSet<String>> = std::sync::OnceLock::new();
    KNOWN.get_or_init(|| crate::driver::load_known().into_iter().filter(|k| k.property == "C13" && k.status == "known").map(|k| k.class).collect())
}

pub static C13: PropSpec = PropSpec {
    id: "C13",
    simulator: "S-sim (+ reader facades)",
    level: "exploration",
    runs: |t| if t == Tier::Thorough { 20_000_000 } else { 150_000 },
    enumerated: |_| 0,
    run,
    rule: "metamorphic pairs: a message from the hello / rpc-reply (ok, data, bare, load-configuration-results, rpc-error bodies) / running-configuration / ephemeral-configuration grammars is serialised canonically and under a seeded composition of rewrites (namespace prefix vs default, inter-element whitespace, whitespace around token-valued text, comments, attribute order, attribute quote, XML declaration, <x/> vs <x></x>) and both are parsed by the real readers (through a real Session for hello and replies, through the reader facade for configuration data). Non-trivial = at least one rewrite was applied; distinct = distinct event-log hash (includes both serialisations)",
    components: &[
        ("netconf message readers (hello.rs, rpc/mod.rs, rpc/error.rs, junos/*.rs) via a real Session", "real"),
        ("junos-agent policies/fetch.rs readers via the verif facade", "real"),
        ("transport", "stub: in-memory"),
    ],
    assumptions: &["decided by generated peer behaviour (serialisation style); schedule fixed", "policy names, error messages, paths and error-info element names are treated as free text (not padded); capability URIs, numbers, enumeration values, address-family names, prefixes and prefix-length ranges as token-valued"],
    watchdog_s: 30,
    stuck_is_verdict: false,
    serial: false,
};
