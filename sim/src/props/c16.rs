//! C16: exactly the active, annotated, default-reject policy statements are managed.
//! Running configurations from a grammar; the candidate reader (through the verif facade) against
//! an independent selection over the generated description.

use std::collections::BTreeSet;

use rpsl::expr::MpFilterExpr;

use crate::asim::{data_doc, render_running, Body, RunningPolicy};
use crate::core::{Ctx, PropSpec, Tier, Verdict};
use crate::ev;

const NAMES: [&str; 12] = ["fltr-foo", "fltr-bar", "IMPORT", "p1", "a&b", "x<y>z", "q\"uote", "it's", "ü", "日本", "semi;colon", "sp ace"];
const EXPRS: [&str; 12] = [
    "AS-FOO",
    "AS-BAR OR AS65000",
    "AS-BAZ AND { 10.0.0.0/8 }^+",
    "{ 192.0.2.0/24^+, 2001:db8::/32^48-64 }",
    "AS65000:AS-CUST AND NOT { 10.0.0.0/8^+ }",
    "<^AS65000 AS65001*$>",
    "(AS-A OR AS-B) AND RS-C",
    "FLTR-X",
    "ANY",
    "AS1 AS2 AS3",
    "PeerAS",
    "community(65000:1)",
];
const BAD_EXPRS: [&str; 6] = ["error!", "AS-FOO AND", "{ 10.0.0.0/8", "", "AS65000 ^^ 7", "))"];

fn gen_policy(ctx: &mut Ctx, i: usize) -> RunningPolicy {
    let base = NAMES[ctx.pick(NAMES.len())];
    // element text is significant: a name with blanks around it is another name than the same without
    let name = match ctx.tape.weighted(&[12, 1, 1, 1]) {
        1 => format!(" {base}-{i}"),
        2 => format!("{base}-{i} "),
        3 => format!("  {base}-{i}\t"),
        _ => format!("{base}-{i}"),
    };
    let comment = match ctx.tape.weighted(&[6, 2, 2, 2, 1, 1, 1, 1]) {
        0 => Some(format!("bgpfu-fltr: {}", EXPRS[ctx.pick(EXPRS.len())])),
        1 => None,
        2 => Some((*ctx.tape.choose(&["managed by hand", "see ticket #42", "bgpfu", "fltr: AS-FOO"])).to_string()),
        3 => Some(format!("bgpfu-fltr: {}", BAD_EXPRS[ctx.pick(BAD_EXPRS.len())])),
        4 => Some(format!("bgpfu-fltr:{}", EXPRS[ctx.pick(EXPRS.len())])),
        5 => Some(format!("BGPFU-FLTR: {}", EXPRS[ctx.pick(EXPRS.len())])),
        6 => Some(format!("xbgpfu-fltr: {}", EXPRS[ctx.pick(EXPRS.len())])),
        _ => Some(format!("bgpfu-fltr:   {}  ", EXPRS[ctx.pick(EXPRS.len())])),
    };
    let active = match ctx.tape.weighted(&[5, 2, 2]) {
        0 => None,
        1 => Some(true),
        _ => Some(false),
    };
    let body = match ctx.tape.weighted(&[8, 1, 1, 1, 1]) {
        0 => Body::DefaultReject,
        1 => Body::Empty,
        2 => Body::Terms,
        3 => Body::ThenAccept,
        _ => Body::RejectPlus,
    };
    RunningPolicy { name, comment, decorate: ctx.pick(4), active, body, attr_variant: ctx.pick(4) }
}

/// the annotation's expression, by the property's definition: 'bgpfu-fltr: <expression>' inside an
/// optional /* ... */ decoration
fn annotation(p: &RunningPolicy) -> Option<String> {
    let c = p.comment.as_deref()?;
    c.trim().strip_prefix("bgpfu-fltr:").map(|e| e.trim().to_string())
}

fn run(ctx: &mut Ctx) -> Verdict {
    // one run in 400: the selection as the running agent makes it - a C01-style history of real agent
    // runs (two pipelined get-config replies read by two tasks, seeded delays): what the agent then
    // manages on the router must be exactly the selected statements
    if ctx.tape.weighted(&[399, 1]) == 1 {
        ctx.count("runs.agent_history");
        return super::agent::history(ctx, super::agent::Focus::C01);
    }
    let n = ctx.pick(if ctx.tier == Tier::Thorough { 12 } else { 6 });
    let mut policies: Vec<RunningPolicy> = (0..n).map(|i| gen_policy(ctx, i)).collect();
    if n >= 2 && ctx.chance(1, 8) {
        // two statements of one name (a list key Junos keeps unique, but the reader must not pick one of them silently)
        let j = 1 + ctx.pick(n - 1);
        let i = ctx.pick(j);
        policies[j].name = policies[i].name.clone();
    }
    let dup_xmlns = ctx.pick(2) == 1;
    let mut doc = data_doc(&render_running(&policies, dup_xmlns));
    if ctx.chance(1, 4) {
        // the prefix bound to the jcmd namespace carries no information
        doc = doc.replace("xmlns:jcmd=", "xmlns:j0=").replace(" jcmd:", " j0:");
        ctx.count("probe.jcmd_namespace_bound_to_another_prefix");
    }
    ev!(ctx, "doc {doc}");
    // independent selection
    let mut want: BTreeSet<(String, String)> = BTreeSet::new();
    let mut has_annotated_other_body = false;
    let mut selected_names: Vec<&str> = Vec::new();
    for p in &policies {
        if p.active == Some(false) {
            continue;
        }
        let Some(e) = annotation(p) else { continue };
        let Ok(parsed) = e.parse::<MpFilterExpr>() else { continue };
        if p.body == Body::DefaultReject {
            want.insert((p.name.clone(), parsed.to_string()));
            selected_names.push(&p.name);
        } else {
            has_annotated_other_body = true;
        }
    }
    ctx.nontrivial = !want.is_empty();
    let duplicate_selected = selected_names.iter().enumerate().any(|(k, a)| selected_names[..k].contains(a));
    if duplicate_selected {
        ctx.count("probe.two_selected_statements_of_one_name");
    }
    if has_annotated_other_body {
        ctx.count("probe.annotated_statement_with_other_body");
    }
    if dup_xmlns {
        ctx.count("probe.duplicate_xmlns_jcmd");
    }
    let got = std::panic::catch_unwind(|| agent::verif::read_candidates(&doc));
    let got = match got {
        Ok(g) => g,
        Err(_) => return Verdict::violation("reader-panicked", doc.chars().take(500).collect::<String>()),
    };
    match got {
        Ok(list) => {
            ctx.count("outcome.accepted");
            let got: BTreeSet<(String, String)> = list.into_iter().collect();
            for (n, e) in &got {
                if !want.contains(&(n.clone(), e.clone())) {
                    let p = policies.iter().find(|p| p.name == *n);
                    let class = match p {
                        None => "selected-unknown-name",
                        Some(p) if p.active == Some(false) => "selected-inactive-statement",
                        Some(p) if annotation(p).is_none() => "selected-unannotated-statement",
                        Some(p) if p.body != Body::DefaultReject => "selected-statement-with-other-content",
                        Some(p) if annotation(p).is_some_and(|a| a.parse::<MpFilterExpr>().is_err()) => "selected-unparseable-annotation",
                        Some(_) => "wrong-expression",
                    };
                    return Verdict::violation(class, format!("reader selected ({n:?}, {e:?}); statement: {p:?}; expected selection {want:?}"));
                }
            }
            for (n, e) in &want {
                if !got.contains(&(n.clone(), e.clone())) {
                    let p = policies.iter().find(|p| p.name == *n);
                    return Verdict::violation("managed-statement-not-selected", format!("({n:?}, {e:?}) is active, annotated and default-reject but was not selected; statement: {p:?}; selected {got:?}"));
                }
            }
        }
        Err(e) => {
            ctx.count("outcome.rejected");
            if duplicate_selected {
                ctx.note("reply with two selected statements of one name was rejected as a whole");
            } else if !has_annotated_other_body {
                return Verdict::violation("valid-configuration-rejected", format!("{e}; document {}", doc.chars().take(600).collect::<String>()));
            }
            if !duplicate_selected {
                ctx.note("reply with an annotated, active statement of other content was rejected as a whole");
            }
        }
    }
    Verdict::Pass
}

pub static C16: PropSpec = PropSpec {
    id: "C16",
    simulator: "A-sim (reader facade)",
    level: "exploration",
    runs: |t| if t == Tier::Thorough { 30_000_000 } else { 150_000 },
    enumerated: |_| 0,
    run,
    rule: "one run in 400 is a C01-style history of real agent runs (the reader fed by the session's reply routing under seeded delays; the router must end up managing exactly the selected statements). Otherwise: running configurations of 0-6 (thorough: 0-12) statements from a grammar: annotation absent / bgpfu-fltr with a parseable expression (12 shapes incl. AS-path regex, PeerAS, literal sets, XML-escaped characters) / unparseable / other text / near-miss prefixes (no space, upper case, leading garbage, padded); decoration /* c */, none, /*c*/, padded; jcmd:active absent / true / false; four attribute orders incl. unrelated attributes and Junos's duplicate xmlns:jcmd; names with XML metacharacters, quotes, non-ASCII, blanks around them; bodies: then reject, nothing, terms, then accept, reject plus another action. Oracle: reader's (name, expression) set == independent selection; a reply containing an annotated active statement of other content, or two selected statements of one name (1 run in 8 repeats a name), may be rejected as a whole but never answered with a selection that leaves one of them out. Non-trivial = the selection is non-empty; distinct = distinct event-log hash (the document)",
    components: &[("junos-agent policies/fetch.rs candidate reader via the verif facade", "real"), ("router", "model: running-configuration renderer of FakeJunos"), ("whole agent against FakeJunos + FakeIrrd (A-sim)", "real, one run in 400")],
    assumptions: &["decided by generated input documents (no schedule, clock or fault involved)", "expressions are compared after rpsl parse + display"],
    watchdog_s: 30,
    stuck_is_verdict: false,
    serial: false,
};
