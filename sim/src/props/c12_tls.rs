//! Enumerated part of C12: framing after negotiation, over the real TLS and SSH transports
//! (R-sim). The peer behaves like a conforming RFC 6242 server: when both hellos advertise
//! :base:1.1 it expects and sends chunked framing. A session that was established must be usable.

use crate::core::{Ctx, Tier, Verdict};
use crate::ev;
use crate::rsim::{hello_msg, run_scenario, Kind, Res, Scenario, Step};
use crate::ssim::{CAP_BASE10, CAP_BASE11, CAP_JUNOS};

const CASES: [(&str, &[&str]); 3] = [("base:1.0 only", &[CAP_BASE10, CAP_JUNOS]), ("base:1.0 and base:1.1", &[CAP_BASE10, CAP_BASE11, CAP_JUNOS]), ("base:1.1 only", &[CAP_BASE11, CAP_JUNOS])];

pub fn count(_t: Tier) -> u64 {
    6
}

pub fn run_enumerated(ctx: &mut Ctx, i: u64) -> Verdict {
    let kind = if i < 3 { Kind::Tls } else { Kind::Ssh };
    let (name, caps) = CASES[(i % 3) as usize];
    let server_has_11 = caps.contains(&CAP_BASE11);
    let sc = Scenario {
        kind,
        steps: vec![Step::Chunk(hello_msg(caps)), Step::Rfc6242Server { server_has_11 }],
        requests: 1,
        extra_request: false,
        label: format!("conforming server advertising {name}"),
        bad_credentials: false,
        password: crate::rsim::SSH_PASSWORD.to_string(),
        big_request: 0,
    };
    ev!(ctx, "scenario {}/{}", kind.name(), sc.label);
    let o = run_scenario(ctx, &sc);
    ev!(ctx, "establish {:?} results {:?} notes {:?}", o.establish, o.results, o.client_messages.iter().filter(|m| m.starts_with("<server:")).collect::<Vec<_>>());
    ctx.nontrivial = true;
    ctx.sim_time_ns = o.virt_ns;
    ctx.count(&format!("runs.framing.{}", kind.name()));
    if let Some(e) = &o.harness_error {
        return Verdict::violation("harness-error", format!("{}/{}: {e}", kind.name(), sc.label));
    }
    match (&o.establish, o.results.first()) {
        (Some(Res::Ok(_)), Some(Res::Ok(v))) if v.contains("TAG-1-framing") => Verdict::Pass,
        (Some(Res::Ok(_)), r) => Verdict::violation(
            format!("established-but-unusable/{}", if server_has_11 { "server-advertises-base:1.1" } else { "base:1.0" }),
            format!("{}: the session was established against a {}, but the first rpc failed: {r:?}; {:?}", kind.name(), sc.label, o.client_messages.iter().filter(|m| m.starts_with("<server:")).collect::<Vec<_>>()),
        ),
        (Some(Res::Err(_)), _) => {
            // refusing is fine when there is no common version the client can really speak
            ctx.count("outcome.refused");
            if caps.contains(&CAP_BASE10) {
                Verdict::violation("refused-valid-hello", format!("{}: establishment failed against a {}: {:?}", kind.name(), sc.label, o.establish))
            } else {
                Verdict::Pass
            }
        }
        (other, _) => Verdict::violation("hello-exchange-stuck", format!("{}: {other:?}", kind.name())),
    }
}
