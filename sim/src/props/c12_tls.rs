//! Enumerated part of C12: framing after negotiation over the real TLS transport (R-sim).

use crate::core::{Ctx, Tier, Verdict};

pub fn count(_t: Tier) -> u64 {
    0
}

pub fn run_enumerated(_ctx: &mut Ctx, _i: u64) -> Verdict {
    Verdict::Pass
}
