//! Enumerated part of C12: framing after negotiation, over the real TLS and SSH transports
//! (R-sim). The peer behaves like a conforming RFC 6242 server: when both hellos advertise
//! :base:1.1 it expects and sends chunked framing. A session that was established must be usable.

use crate::core::{Ctx, Tier, Verdict};
use crate::ev;
use crate::rsim::{hello_msg, run_scenario, Kind, Res, Scenario, Step};
use crate::ssim::{CAP_BASE10, CAP_BASE11, CAP_JUNOS};

const CASES: [(&str, &[&str]); 3] = [("base:1.0 only", &[CAP_BASE10, CAP_JUNOS]), ("base:1.0 and base:1.1", &[CAP_BASE10, CAP_BASE11, CAP_JUNOS]), ("base:1.1 only", &[CAP_BASE11, CAP_JUNOS])];

const KINDS: [Kind; 3] = [Kind::Tls, Kind::Local, Kind::Ssh];
/// framed sizes of the server hello around the transports' initial receive capacity
const HELLO_SIZES: [usize; 17] = [1018, 1019, 1020, 1021, 1022, 1023, 1024, 1025, 1026, 1027, 1028, 1029, 1030, 2047, 2048, 2049, 2050];
const DELIVERY_PER_KIND: u64 = 7 + HELLO_SIZES.len() as u64;

pub fn count(_t: Tier) -> u64 {
    6 + 3 * DELIVERY_PER_KIND
}

/// a valid hello of exactly `len` bytes (delimiter included), padded with one long capability URI
fn hello_of_len(len: usize) -> Vec<u8> {
    let base = hello_msg(&[CAP_BASE10, CAP_JUNOS, "urn:example:pad:"]).len();
    let pad = format!("urn:example:pad:{}", "p".repeat(len.saturating_sub(base)));
    hello_msg(&[CAP_BASE10, CAP_JUNOS, &pad])
}

/// "established if and only if the hello is valid" also over the real transports: a valid hello is
/// delivered in two units cut at each position of its delimiter, or in one unit whose size crosses the
/// receive buffer's capacity; the session must be established and its first request answered.
fn run_delivery(ctx: &mut Ctx, j: u64) -> Verdict {
    let kind = KINDS[(j / DELIVERY_PER_KIND) as usize];
    let k = (j % DELIVERY_PER_KIND) as usize;
    let replies = vec![crate::rsim::reply_msg(1, 140)];
    let sc = if k < 7 {
        let hello = hello_msg(&[CAP_BASE10, CAP_JUNOS]);
        let d = hello.len() - crate::rsim::MARKER.len();
        super::c06::segmentation_scenario_with_hello(kind, hello, &[d + k], &replies, &[], format!("valid hello cut at delimiter+{k}"))
    } else {
        let n = HELLO_SIZES[k - 7];
        super::c06::segmentation_scenario_with_hello(kind, hello_of_len(n), &[], &replies, &[], format!("valid hello of {n} bytes in one unit"))
    };
    ev!(ctx, "scenario {}/{}", kind.name(), sc.label);
    let o = run_scenario(ctx, &sc);
    ev!(ctx, "establish {:?} results {:?} harness {:?}", o.establish, o.results, o.harness_error);
    ctx.nontrivial = true;
    ctx.sim_time_ns = o.virt_ns;
    ctx.count(&format!("runs.hello_delivery.{}", kind.name()));
    match super::c06::oracle_c06(&sc, &o) {
        Verdict::Pass => Verdict::Pass,
        other => other,
    }
}

pub fn run_enumerated(ctx: &mut Ctx, i: u64) -> Verdict {
    if i >= 6 {
        return run_delivery(ctx, i - 6);
    }
    let kind = if i < 3 { Kind::Tls } else { Kind::Ssh };
    let (name, caps) = CASES[(i % 3) as usize];
    let server_has_11 = caps.contains(&CAP_BASE11);
    let sc = Scenario {
        kind,
        steps: vec![Step::Chunk(hello_msg(caps)), Step::Rfc6242Server { server_has_11 }],
        requests: 1,
        extra_request: false,
        label: format!("conforming server advertising {name}"),
        bad_credentials: false,
        password: crate::rsim::SSH_PASSWORD.to_string(),
        big_request: 0,
        slow_peer: false,
        ssh_setup: Default::default(),
        abandon_close: false,
        final_close: false,
    };
    ev!(ctx, "scenario {}/{}", kind.name(), sc.label);
    let o = run_scenario(ctx, &sc);
    ev!(ctx, "establish {:?} results {:?} notes {:?}", o.establish, o.results, o.client_messages.iter().filter(|m| m.starts_with("<server:")).collect::<Vec<_>>());
    ctx.nontrivial = true;
    ctx.sim_time_ns = o.virt_ns;
    ctx.count(&format!("runs.framing.{}", kind.name()));
    if let Some(e) = &o.harness_error {
        return Verdict::violation("harness-error", format!("{}/{}: {e}", kind.name(), sc.label));
    }
    match (&o.establish, o.results.first()) {
        (Some(Res::Ok(_)), Some(Res::Ok(v))) if v.contains("TAG-1-framing") => Verdict::Pass,
        (Some(Res::Ok(_)), r) => Verdict::violation(
            format!("established-but-unusable/{}", if server_has_11 { "server-advertises-base:1.1" } else { "base:1.0" }),
            format!("{}: the session was established against a {}, but the first rpc failed: {r:?}; {:?}", kind.name(), sc.label, o.client_messages.iter().filter(|m| m.starts_with("<server:")).collect::<Vec<_>>()),
        ),
        (Some(Res::Err(_)), _) => {
            // refusing is fine when there is no common version the client can really speak
            ctx.count("outcome.refused");
            if caps.contains(&CAP_BASE10) {
                Verdict::violation("refused-valid-hello", format!("{}: establishment failed against a {}: {:?}", kind.name(), sc.label, o.establish))
            } else {
                Verdict::Pass
            }
        }
        (other, _) => Verdict::violation("hello-exchange-stuck", format!("{}: {other:?}", kind.name())),
    }
}
