//! C20: credentials never appear in log output — R-sim (real SSH and TLS transports against the
//! scripted peers) with a capturing `tracing` subscriber at every level / several filter
//! directives, for successful and failing connection attempts.

use std::io::Write;
use std::sync::{Arc, Mutex};

use tracing_subscriber::fmt::format::FmtSpan;
use tracing_subscriber::EnvFilter;

use crate::core::{Ctx, PropSpec, Tier, Verdict};
use crate::ev;
use crate::rsim::{hello_msg, reply_msg, run_scenario, CloseKind, Kind, Scenario, Step, PKI};
use crate::ssim::{CAP_BASE10, CAP_JUNOS};

const PASSWORDS: [&str; 11] = ["пароль-секрет", "我的密码短语", "ñandú–çedilla–ßtraße", "s3cr3t pass'\"", "hunter2hunter2", "pässwörd-ünïcode", "with space and \"quotes\"", "tab\tand\\backslash", "Tr0ub4dor&3<xml>", "correct horse battery staple", "0123456789abcdef0123456789abcdef"];
const FILTERS: [&str; 8] = ["trace", "debug", "info", "netconf=trace", "trace,russh=off,rustls=off", "netconf::transport=trace,netconf::session=debug", "warn,netconf::transport::ssh=trace", "error"];

#[derive(Clone)]
struct Buf(Arc<Mutex<Vec<u8>>>);
impl Write for Buf {
    fn write(&mut self, b: &[u8]) -> std::io::Result<usize> {
        self.0.lock().unwrap().extend_from_slice(b);
        Ok(b.len())
    }
    fn flush(&mut self) -> std::io::Result<()> {
        Ok(())
    }
}

fn hex(b: &[u8], upper: bool, sep: &str) -> String {
    b.iter().map(|x| if upper { format!("{x:02X}") } else { format!("{x:02x}") }).collect::<Vec<_>>().join(sep)
}

pub fn base64(b: &[u8]) -> String {
    const T: &[u8; 64] = b"ABCDEFGHIJKLMNOPQRSTUVWXYZabcdefghijklmnopqrstuvwxyz0123456789+/";
    let mut o = String::new();
    for c in b.chunks(3) {
        let n = (u32::from(c[0]) << 16) | (u32::from(*c.get(1).unwrap_or(&0)) << 8) | u32::from(*c.get(2).unwrap_or(&0));
        o.push(T[(n >> 18) as usize & 63] as char);
        o.push(T[(n >> 12) as usize & 63] as char);
        o.push(if c.len() > 1 { T[(n >> 6) as usize & 63] as char } else { '=' });
        o.push(if c.len() > 2 { T[n as usize & 63] as char } else { '=' });
    }
    o
}

/// (encoding name, needle) pairs for a secret
pub fn encodings(secret: &[u8]) -> Vec<(&'static str, String)> {
    let mut v = Vec::new();
    if let Ok(s) = std::str::from_utf8(secret) {
        v.push(("clear", s.to_string()));
        v.push(("debug-escaped", format!("{s:?}").trim_matches('"').to_string()));
    }
    v.push(("hex", hex(secret, false, "")));
    v.push(("hex-upper", hex(secret, true, "")));
    v.push(("hex-spaced", hex(secret, false, " ")));
    v.push(("hex-colon", hex(secret, false, ":")));
    v.push(("base64", base64(secret)));
    v.push(("base64-unpadded", base64(secret).trim_end_matches('=').to_string()));
    v.push(("byte-list", secret.iter().map(|b| b.to_string()).collect::<Vec<_>>().join(", ")));
    v.push(("byte-list-compact", secret.iter().map(|b| b.to_string()).collect::<Vec<_>>().join(",")));
    v.retain(|(_, n)| n.len() >= 6);
    v
}

fn key_material() -> Vec<Vec<u8>> {
    // the PEM body (as text) and the DER bytes, plus the DER's inner private scalar region
    let pem = std::fs::read_to_string(format!("{PKI}/client.key")).expect("client.key");
    let body: String = pem.lines().filter(|l| !l.starts_with("-----")).collect();
    let der = match rustls_pemfile::read_one_from_slice(pem.as_bytes()).expect("pem").expect("item").0 {
        rustls_pemfile::Item::Sec1Key(k) => k.secret_sec1_der().to_vec(),
        rustls_pemfile::Item::Pkcs8Key(k) => k.secret_pkcs8_der().to_vec(),
        rustls_pemfile::Item::Pkcs1Key(k) => k.secret_pkcs1_der().to_vec(),
        _ => Vec::new(),
    };
    let mut v = vec![der.clone()];
    // the private scalar itself (SEC1 / PKCS#8 for P-256: the 32-byte OCTET STRING `04 20 ...`) and
    // its two halves catch partial dumps; the rest of the DER is public (curve OID, public point)
    if let Some(p) = der.windows(2).position(|w| w == [0x04, 0x20]) {
        if der.len() >= p + 34 {
            let scalar = der[p + 2..p + 34].to_vec();
            v.push(scalar[..16].to_vec());
            v.push(scalar[16..].to_vec());
            v.push(scalar);
        }
    }
    let _ = body;
    v
}

fn run(ctx: &mut Ctx) -> Verdict {
    let kind = match ctx.tape.weighted(&[2, 2, 3]) {
        0 => Kind::Ssh,
        1 => Kind::Tls,
        _ => return super::c20_agent::run(ctx),
    };
    let password = PASSWORDS[ctx.pick(PASSWORDS.len())].to_string();
    let filter = FILTERS[ctx.tape.weighted(&[6, 3, 1, 2, 2, 2, 2, 1])];
    let outcome_kind = ctx.tape.weighted(&[4, 3, 2]);
    let hello = hello_msg(&[CAP_BASE10, CAP_JUNOS]);
    let (steps, bad) = match outcome_kind {
        0 => (vec![Step::Chunk(hello), Step::WaitClientMessages(2), Step::Chunk(reply_msg(1, 140))], false),
        1 => (vec![Step::Chunk(hello)], true),
        _ => (vec![Step::Chunk(hello[..40].to_vec()), Step::Close(CloseKind::HalfClean)], false),
    };
    // SSH: the server may sit on the password request for a while (an AAA backend that is slow to answer)
    // before it accepts or rejects; whatever the client does about the wait, it must not log the password
    let auth_delay_ms: u64 = if kind == Kind::Ssh { [0, 0, 0, 0, 0, 3_000, 14_000, 65_000][ctx.tape.weighted(&[1; 8])] } else { 0 };
    if auth_delay_ms > 0 {
        ctx.count("fault.ssh_auth_answer_delayed");
    }
    let sc = Scenario {
        kind,
        steps,
        requests: usize::from(outcome_kind == 0),
        extra_request: false,
        label: format!("log capture, filter {filter:?}, outcome {outcome_kind}, auth answer after {auth_delay_ms} ms"),
        bad_credentials: bad,
        password: password.clone(),
        big_request: 0,
        slow_peer: false,
        ssh_setup: crate::rsim::SshSetup { auth_delay_ms, at_subsystem: None },
        abandon_close: false,
        final_close: false,
    };
    ev!(ctx, "scenario {}/{} password {:?}", kind.name(), sc.label, password);
    let buf = Buf(Arc::default());
    let buf2 = buf.clone();
    let subscriber = tracing_subscriber::fmt()
        .with_env_filter(EnvFilter::new(filter))
        .with_span_events(FmtSpan::NEW | FmtSpan::CLOSE)
        .with_ansi(false)
        .with_writer(move || buf2.clone())
        .finish();
    let o = tracing::subscriber::with_default(subscriber, || run_scenario(ctx, &sc));
    ev!(ctx, "establish {:?} results {:?}", o.establish.as_ref().map(|r| format!("{r:?}").chars().take(80).collect::<String>()), o.results.len());
    if let Some(e) = &o.harness_error {
        return Verdict::violation("harness-error", e.clone());
    }
    let text = String::from_utf8_lossy(&buf.0.lock().unwrap()).into_owned();
    ctx.count_n("probe.log_bytes_captured", text.len() as u64);
    ctx.nontrivial = text.len() > 200;
    ctx.count(&format!("runs.{}.{}", kind.name(), ["success", "bad-credentials", "peer-closes"][outcome_kind]));
    let mut secrets: Vec<(&str, Vec<u8>)> = Vec::new();
    if kind == Kind::Ssh {
        secrets.push(("ssh-password", password.as_bytes().to_vec()));
        if bad {
            secrets.push(("ssh-password", format!("wrong-{password}").into_bytes()));
        }
    } else {
        for k in key_material() {
            secrets.push(("tls-client-key", k));
        }
        let pem = std::fs::read_to_string(format!("{PKI}/client.key")).unwrap_or_default();
        for l in pem.lines().filter(|l| !l.starts_with("-----") && l.len() >= 16) {
            secrets.push(("tls-client-key-pem-line", l.as_bytes().to_vec()));
        }
    }
    for (what, secret) in &secrets {
        for (enc, needle) in encodings(secret) {
            if what.ends_with("pem-line") && enc != "clear" {
                continue;
            }
            for line in text.lines().filter(|l| l.contains(&needle)) {
                let own = line.contains(" netconf") || line.contains(" bgpfu");
                let shown: String = line.chars().take(300).collect();
                if own {
                    return Verdict::violation(format!("secret-in-log/{what}/{enc}"), format!("{} transport, filter {filter:?}: the {what} appears ({enc}) in a line emitted by the library: {shown}", kind.name()));
                }
                ctx.note(&format!("a dependency's log line contains the {what} ({enc})"));
            }
        }
    }
    Verdict::Pass
}

pub static C20: PropSpec = PropSpec {
    id: "C20",
    simulator: "R-sim",
    level: "exploration",
    runs: |t| if t == Tier::Thorough { 100_000 } else { 1_500 },
    enumerated: |_| 0,
    run,
    rule: "real SSH (password) and TLS (client key) session establishment against the scripted peers with a capturing tracing subscriber (span creation and close events included, so that every #[instrument]ed argument is rendered); 8 filter directives from 'error' to 'trace' incl. per-target ones; 11 passwords (quotes, whitespace, backslash, XML metacharacters, mixed and entirely non-ASCII ones); outcomes: success + one rpc, rejected credentials, peer closes inside the hello; SSH: the answer to the password request comes at once or after 3, 14 or 65 virtual seconds. Oracle: no line whose target is one of the repository's crates contains the secret in clear, Debug-escaped, hex (4 spellings), base64 (2) or byte-list (2) form; for the key: the DER, two 16-byte windows of it, and each PEM body line. Agent part (3 runs in 7): the agent executable (the repository's own bin source, argument parsing, global subscriber, PEM readers) is started as a child process with -qq..-vvv, RUST_LOG unset / trace / per-target, RUST_BACKTRACE 0/1, one-shot or daemon mode, logging to stderr or to a log file, against a `remote` target on a closed loopback port; the client key file (PKCS#8 EC, SEC1 EC, PKCS#1 RSA) has met one of 19 storage faults: intact, truncated at any offset, line ends lost (joined by blanks / by nothing, with or without a final LF), CR-only, CRLF, one flipped bit, leading garbage / BOM / bag attributes, torn BEGIN line, missing or torn END line, unknown label, empty, missing, a directory, swapped with the certificate, key+certificate in one file (both orders), re-wrapped to other line widths. Oracle: nothing the process writes (stderr, stdout, log files; ANSI sequences removed) contains the DER, its private part or any 16-byte window of it in the ten encodings, or any 20-character window of the private part of the PEM text, except in a log line whose target is a dependency. Non-trivial = more than 200 bytes of log text captured (agent part: any output, or quiet mode); distinct = distinct event-log hash",
    components: &[
        ("netconf session.rs / transport/ssh.rs / transport/tls.rs with their tracing instrumentation", "real"),
        ("tracing, tracing-subscriber (fmt layer, EnvFilter)", "real; installed per run with a thread-local default dispatcher"),
        ("peer", "scripted: russh server / tokio-rustls acceptor"),
        ("agent executable: junos-agent/src/bin/bgpfu-junos-agent.rs, cli.rs (argument parsing, logging set-up), netconf/mod.rs, netconf/pem.rs, task.rs", "real, as a child process (target/release/agentbin = the repository's bin source linked to the agent library)"),
        ("key / certificate files", "real files in a scratch directory, written with the injected storage fault"),
        ("NETCONF server for the agent executable", "absent: closed loopback port (every attempt fails after the files were read)"),
    ],
    assumptions: &[
        "the agent executable runs on the real clock (it is a child process); only its output is observed, and a daemon is stopped after its first 'updater job failed' line, so no timing enters the verdict",
        "the agent executable's successful TLS handshake is not exercised as a child process; the library side of it is covered in-process by the R-sim TLS runs",
        "lines emitted by dependencies (russh, rustls) are scanned too but reported as observations only: the statement is about what the library and agent emit",
    ],
    watchdog_s: 20,
    stuck_is_verdict: false,
    serial: true,
};
