//! C14: arbitrary bytes from the server produce an error, never a panic or a hang, and replies to
//! other outstanding requests are still delivered — S-sim (+ reader facades for the agent).

use std::collections::BTreeMap;
use std::sync::{Arc, Mutex};

use netconf::message::rpc::operation::{
    junos::{
        load_configuration::{Config, Merge, Xml},
        CloseConfiguration, CommitConfiguration, LoadConfiguration, OpenConfiguration,
    },
    Builder, Datastore, Get, Lock, Opaque,
};
use netconf::{Error, Session};

use crate::core::{Ctx, PropSpec, Tier, Verdict};
use crate::ev;
use crate::ssim::{drive, hello_with, reply, Quiescence, SchedCfg, Server, SimTransport, CAP_BASE10, CAP_JUNOS, MARKER};

#[derive(Clone, Copy, Debug, PartialEq, Eq)]
enum Target {
    Hello,
    Reply,
    Candidates,
    Installed,
}

fn valid_config(installed: bool) -> String {
    if installed {
        "<data xmlns=\"urn:ietf:params:xml:ns:netconf:base:1.0\"><configuration xmlns=\"http://xml.juniper.net/xnm/1.1/xnm\"><policy-options><policy-statement><name>fltr-a</name><term><name>inet</name><from><family>inet</family><route-filter><address>192.0.2.0/24</address><choice-ident>prefix-length-range</choice-ident><choice-value>/24-/32</choice-value></route-filter></from><then><accept/></then></term><term><name>inet6</name><from><family>inet6</family><route-filter><address>2001:db8::/32</address><choice-ident>prefix-length-range</choice-ident><choice-value>/32-/48</choice-value></route-filter></from><then><accept/></then></term><then><reject/></then></policy-statement></policy-options></configuration></data>".into()
    } else {
        "<data xmlns=\"urn:ietf:params:xml:ns:netconf:base:1.0\"><configuration xmlns=\"http://xml.juniper.net/xnm/1.1/xnm\" xmlns:junos=\"http://xml.juniper.net/junos/23.1R0/junos\" junos:changed-seconds=\"1709120869\"><policy-options><policy-statement xmlns:jcmd=\"http://yang.juniper.net/junos/jcmd\" jcmd:comment=\"/* bgpfu-fltr: AS-FOO AND { 10.0.0.0/8 }^+ */\"><name>fltr-a</name><then><reject/></then></policy-statement><policy-statement xmlns:jcmd=\"http://yang.juniper.net/junos/jcmd\" jcmd:comment=\"/* other */\" jcmd:active=\"false\"><name>x</name></policy-statement></policy-options></configuration></data>".into()
    }
}

/// Mutate `m` (a valid message without delimiter). Returns (bytes, description).
fn mutate(ctx: &mut Ctx, m: &[u8], other: &[u8]) -> (Vec<u8>, String) {
    let big = if ctx.tier == Tier::Thorough { 4 << 20 } else { 64 << 10 };
    let n = m.len().max(1);
    match ctx.pick(20) {
        0 => {
            let at = ctx.pick(n + 1);
            (m[..at.min(m.len())].to_vec(), format!("truncate@{at}"))
        }
        1 => {
            let a = ctx.pick(n + 1).min(m.len());
            let b = ctx.pick(other.len() + 1).min(other.len());
            ([&m[..a], &other[b..]].concat(), format!("splice {a}+{b}.."))
        }
        2 => {
            let mut v = m.to_vec();
            let k = 1 + ctx.pick(3);
            let mut d = String::from("flip");
            for _ in 0..k {
                if v.is_empty() {
                    break;
                }
                let at = ctx.pick(v.len());
                let x = 1 + ctx.pick(255) as u8;
                v[at] ^= x;
                d.push_str(&format!(" {at}^{x:#x}"));
            }
            (v, d)
        }
        3 => {
            // duplicate a region (often a whole element)
            let a = ctx.pick(n).min(m.len());
            let b = (a + 1 + ctx.pick(n - a.min(n - 1))).min(m.len());
            ([&m[..b], &m[a..b], &m[b..]].concat(), format!("duplicate {a}..{b}"))
        }
        4 => {
            let s = String::from_utf8_lossy(m).replace("message-id=\"", "message-id=\"99999999999999999999999");
            (s.into_bytes(), "huge message-id".into())
        }
        5 => {
            let s = String::from_utf8_lossy(m).replacen("message-id=\"", "message-id=\"-", 1);
            (s.into_bytes(), "negative message-id".into())
        }
        6 => {
            let mut v = m.to_vec();
            let at = ctx.pick(v.len() + 1).min(v.len());
            let bad: &[u8] = *ctx.tape.choose(&[&[0xFFu8][..], &[0xC3], &[0xE2, 0x82], &[0xED, 0xA0, 0x80], &[0x00]]);
            v.splice(at..at, bad.iter().copied());
            (v, format!("invalid utf-8 at {at}"))
        }
        7 => {
            let s = String::from_utf8_lossy(m).replace("urn:ietf:params:xml:ns:netconf:base:1.0", "urn:ietf:params:xml:ns:netconf:base:1.1");
            (s.into_bytes(), "wrong namespace".into())
        }
        8 => {
            let s = String::from_utf8_lossy(m).into_owned();
            let filler = "x".repeat(big);
            let s = match s.rfind("</") {
                Some(i) => format!("{}{}{}", &s[..i], filler, &s[i..]),
                None => filler,
            };
            (s.into_bytes(), format!("{big} bytes of text"))
        }
        9 => {
            let k = ctx.pick(65);
            ((0..k).map(|_| ctx.pick(256) as u8).collect(), format!("{k} random bytes"))
        }
        10 => (Vec::new(), "empty message".into()),
        11 => {
            let depth = if ctx.tier == Tier::Thorough { 100_000 } else { 2_000 };
            let s = String::from_utf8_lossy(m).into_owned();
            let nest = format!("{}{}", "<a>".repeat(depth), "</a>".repeat(depth));
            let s = match s.rfind("</") {
                Some(i) => format!("{}{}{}", &s[..i], nest, &s[i..]),
                None => nest,
            };
            (s.into_bytes(), format!("nesting depth {depth}"))
        }
        12 => {
            let s = String::from_utf8_lossy(m).replace("<session-id>", "<session-id>184467440737095516150").replace("<load-error-count>", "<load-error-count>-");
            (s.into_bytes(), "huge session-id".into())
        }
        13 => {
            let s = String::from_utf8_lossy(m).into_owned();
            (format!("{s}{s}").into_bytes(), "message twice (two roots)".into())
        }
        16 => {
            // a perfectly valid reply whose message-id matches no outstanding request
            let id = *ctx.tape.choose(&["7777", "0", "18446744073709551615", "4242"]);
            let s = String::from_utf8_lossy(m).into_owned();
            let s = match (s.find("message-id=\""), s.find("message-id=\"").and_then(|i| s[i + 12..].find('"').map(|j| i + 12 + j))) {
                (Some(i), Some(j)) => format!("{}{id}{}", &s[..i + 12], &s[j..]),
                _ => s,
            };
            (s.into_bytes(), "valid reply with an unknown message-id".into())
        }
        17 => (m.to_vec(), "unmodified (control)".into()),
        18 | 19 => {
            // the text of one leaf element (18) or the value of one attribute (19) is replaced by a
            // generated value: lengths 0..~300 bytes, ASCII followed by 2-, 3- or 4-byte characters so
            // that every fixed byte offset falls inside a character for some run
            let text = String::from_utf8_lossy(m).into_owned();
            let b = text.as_bytes();
            let mut spans: Vec<(usize, usize)> = Vec::new();
            if which_leaf(ctx) {
                let mut i = 0;
                while i < b.len() {
                    if b[i] == b'>' {
                        if let Some(j) = text[i + 1..].find('<').map(|j| i + 1 + j) {
                            if j > i + 1 && b.get(j + 1) == Some(&b'/') {
                                spans.push((i + 1, j));
                            }
                            i = j;
                            continue;
                        }
                    }
                    i += 1;
                }
            } else {
                let mut i = 0;
                while let Some(k) = text[i..].find("=\"").map(|k| i + k + 2) {
                    match text[k..].find('"') {
                        Some(e) => {
                            spans.push((k, k + e));
                            i = k + e + 1;
                        }
                        None => break,
                    }
                }
            }
            if spans.is_empty() {
                return (m.to_vec(), "unmodified (control)".into());
            }
            // one time in four the value is a number (counts, ids and lengths are read from such leaves);
            // it then goes, three times out of four, where a number stood before - if there is such a place
            let number = ctx.pick(4) == 0;
            let numeric: Vec<(usize, usize)> = spans.iter().copied().filter(|(a, e)| !text[*a..*e].trim().is_empty() && text[*a..*e].trim().bytes().all(|c| c.is_ascii_digit())).collect();
            let (a, e) = if number && !numeric.is_empty() && ctx.pick(4) != 0 { numeric[ctx.pick(numeric.len())] } else { spans[ctx.pick(spans.len())] };
            let ascii = ctx.pick(140);
            let wide: &str = *ctx.tape.choose(&["", "é", "日", "😀", " ", "&amp;", "&#x1F600;", "\t"]);
            let repeat = ctx.pick(60);
            let value = if number {
                (*ctx.tape.choose(&["0", "1", "2", "7", "255", "65536", "4294967295", "4294967296", "18446744073709551615", "18446744073709551616", "-1", "-0", "+3", "99999999999999999999999999", "1e3", "0x10"])).to_string()
            } else {
                format!("{}{}", "v".repeat(ascii), wide.repeat(repeat))
            };
            let old = text[a..e].to_string();
            (format!("{}{}{}", &text[..a], value, &text[e..]).into_bytes(), format!("value replaced ({} ascii + {} x {:?}) in place of {:?}", ascii, repeat, wide, old.chars().take(24).collect::<String>()))
        }
        14 => {
            let s = String::from_utf8_lossy(m).replace('>', " junk=\"1\" junk=\"2\">");
            (s.into_bytes(), "duplicate attributes everywhere".into())
        }
        _ => {
            let s = String::from_utf8_lossy(m).replace("</", "<!-- c --></").replacen('<', "<!DOCTYPE x [<!ENTITY e \"v\">]><", 1);
            (s.into_bytes(), "doctype + comments".into())
        }
    }
}

/// Is the damage attributable to request `id`? True when the bytes are UTF-8 and - after an
/// optional XML declaration, white space and comments - begin with a complete, well-formed
/// <rpc-reply> start tag in the base namespace whose message-id is `id`. Whatever follows may be
/// arbitrarily damaged: the message can still be handed to its owner, so nobody else needs to be
/// disturbed and the owner need not wait.
fn attributable_to(bytes: &[u8], id: &str) -> bool {
    let Ok(text) = std::str::from_utf8(bytes) else { return false };
    let mut rest = text.trim_start();
    if rest.starts_with("<?xml") {
        match rest.find("?>") {
            Some(i) => rest = rest[i + 2..].trim_start(),
            None => return false,
        }
    }
    while rest.starts_with("<!--") {
        match rest.find("-->") {
            Some(i) => rest = rest[i + 3..].trim_start(),
            None => return false,
        }
    }
    if !rest.starts_with('<') {
        return false;
    }
    // end of the start tag: the first '>' outside attribute quotes
    let mut quote: Option<char> = None;
    let mut end = None;
    for (i, c) in rest.char_indices().skip(1) {
        match (quote, c) {
            (None, '"' | '\'') => quote = Some(c),
            (Some(q), c) if c == q => quote = None,
            (None, '>') => {
                end = Some(i);
                break;
            }
            (None, '<') => return false,
            _ => {}
        }
    }
    let Some(end) = end else { return false };
    let tag = &rest[..end];
    if tag.ends_with('/') {
        return false;
    }
    let qname = tag[1..].split(|c: char| c.is_whitespace()).next().unwrap_or("");
    let closed = format!("{tag}></{qname}>");
    match crate::xml::parse(&closed) {
        Ok(d) => d.root.local == "rpc-reply" && d.root.ns.as_deref() == Some(crate::doc::NS) && d.root.attr("message-id") == Some(id),
        Err(_) => false,
    }
}

fn which_leaf(ctx: &mut Ctx) -> bool {
    ctx.pick(3) != 0
}

/// a reply carrying a complete <rpc-error> (every optional child present), so that the mutations
/// reach the error readers too
fn error_reply(id: &str, x: usize) -> Vec<u8> {
    reply(
        id,
        &format!(
            "<rpc-error><error-type>application</error-type><error-tag>operation-failed</error-tag><error-severity>error</error-severity><error-app-tag>app-tag</error-app-tag><error-path xmlns:t=\"urn:x\">/t:a/t:b</error-path><error-message xml:lang=\"en\">TAG-{x}-ERR</error-message><error-info><bad-element>foo</bad-element><bad-attribute>bar</bad-attribute><session-id>7</session-id></error-info></rpc-error>"
        ),
    )
}

const OPS: [&str; 6] = ["get", "lock", "open-configuration", "close-configuration", "load-configuration", "commit-configuration"];

/// a valid reply to operation `op` (index into OPS), in one of its shapes
fn valid_reply_for(ctx: &mut Ctx, op: usize, id: &str, x: usize) -> Vec<u8> {
    let warning = "<rpc-error><error-type>protocol</error-type><error-tag>operation-failed</error-tag><error-severity>warning</error-severity><error-message>statement not found</error-message><error-info><bad-element>policy-statement</bad-element></error-info></rpc-error>";
    match (op, ctx.pick(3)) {
        (_, 0) => error_reply(id, x),
        (0, _) => reply(id, &format!("<data><t xmlns=\"urn:x\">TAG-{x}-OK</t></data>")),
        (1, _) => reply(id, "<ok/>"),
        (2, 1) | (3, 1) => reply(id, ""),
        (2, _) | (3, _) => reply(id, warning),
        (4, 1) if ctx.pick(2) == 0 => reply(id, "<load-configuration-results><ok/></load-configuration-results>"),
        // a refused load: error-severity rpc-error and a consistent error count, no <ok/>
        (4, 1) => reply(id, &format!("<load-configuration-results>{}<load-error-count>1</load-error-count></load-configuration-results>", warning.replace("warning", "error"))),
        (4, _) => reply(id, &format!("<load-configuration-results>{warning}<load-error-count>1</load-error-count><ok/></load-configuration-results>")),
        (_, 1) => reply(id, "<ok/>"),
        _ => reply(id, &format!("{warning}<ok/>")),
    }
}

fn show<T: std::fmt::Debug>(r: Result<T, Error>) -> String {
    match r {
        Ok(o) => format!("Ok({})", format!("{o:?}").chars().take(200).collect::<String>()),
        Err(e) => format!("Err({})", format!("{e:?}").chars().take(200).collect::<String>()),
    }
}

struct Fake {
    n: usize,
    target_k: Option<usize>,
    mutated: Vec<u8>,
    /// sent (complete, with delimiter) right before `mutated`
    genuine_first: Option<Vec<u8>>,
}

impl Server for Fake {
    fn on_message(&mut self, msg: &str) -> Vec<Vec<u8>> {
        if msg.trim_start().starts_with("<hello") {
            return vec![];
        }
        let id = crate::ssim::message_id_of(msg).unwrap_or_else(|| "0".into());
        let k = self.n;
        self.n += 1;
        if Some(k) == self.target_k {
            let mut m = std::mem::take(&mut self.mutated);
            m.extend_from_slice(MARKER.as_bytes());
            return self.genuine_first.take().into_iter().chain(std::iter::once(m)).collect();
        }
        vec![reply(&id, &format!("<data><t xmlns=\"urn:x\">TAG-{k}-OK</t></data>"))]
    }
}

fn run(ctx: &mut Ctx) -> Verdict {
    crate::ssim::quiet_panics();
    // one run in 150: the real transports - a hello or reply cut short, then the peer goes away
    if ctx.tape.weighted(&[149, 1]) == 1 {
        return super::c06::truncated_then_closed(ctx);
    }
    // one run in 150: the real transports - a hostile message among well-formed replies, several of
    // them arriving in one delivery; nobody may wait for ever and no value may be somebody else's
    if ctx.tape.weighted(&[149, 1]) == 1 {
        ctx.count("runs.hostile_message_among_coalesced_replies");
        return super::c18_rsim::run_mode(ctx, super::c18_rsim::Mode::HostileCoalesced);
    }
    let target = *ctx.tape.choose(&[Target::Reply, Target::Reply, Target::Hello, Target::Candidates, Target::Installed]);
    match target {
        Target::Candidates | Target::Installed => {
            let installed = target == Target::Installed;
            let valid = valid_config(installed);
            let (bytes, what) = mutate(ctx, valid.as_bytes(), valid_config(!installed).as_bytes());
            ev!(ctx, "{target:?}: {what}");
            ctx.nontrivial = true;
            ctx.count(&format!("fault.{}", what.split(|c: char| c == '@' || c.is_ascii_digit()).next().unwrap_or("").trim()));
            let Ok(doc) = String::from_utf8(bytes) else {
                // the session layer refuses non-UTF-8 before the reader runs
                return Verdict::Pass;
            };
            let r = std::panic::catch_unwind(|| if installed { agent::verif::read_installed(&doc).map(|v| v.len()) } else { agent::verif::read_candidates(&doc).map(|v| v.len()) });
            match r {
                Ok(r) => {
                    ctx.count(if r.is_ok() { "outcome.value" } else { "outcome.error" });
                    Verdict::Pass
                }
                Err(p) => {
                    let msg = p.downcast_ref::<String>().cloned().or_else(|| p.downcast_ref::<&str>().map(|s| (*s).to_string())).unwrap_or_default();
                    Verdict::violation(format!("panic/{target:?}-reader"), format!("{what}: {msg}; input {}", doc.chars().take(300).collect::<String>()))
                }
            }
        }
        Target::Hello | Target::Reply => {
            let n = 1 + ctx.pick(4);
            let x = ctx.pick(n);
            let permute = ctx.pick(2) == 1;
            // one reply-run in eight: the hostile bytes are a SECOND message carrying the id of request x,
            // sent right after the genuine reply to x; the genuine reply was delivered first and must be
            // what x gets (whoever reads the second message may fail)
            let forged = target == Target::Reply && n >= 2 && ctx.chance(1, 8);
            // (the server's messages then reach the client in the order sent: "delivered first" must hold)
            let permute = permute && !forged;
            let valid_hello = hello_with(&[CAP_BASE10, CAP_JUNOS], "21");
            let valid_hello = &valid_hello[..valid_hello.len() - MARKER.len()];
            let op = if target == Target::Reply && !forged { ctx.pick(OPS.len()) } else { 0 };
            let valid_reply = if target == Target::Reply {
                ctx.count(&format!("probe.base_reply_to.{}", OPS[op]));
                valid_reply_for(ctx, op, &format!("{}", x + 1), x)
            } else {
                reply(&format!("{}", x + 1), &format!("<data><t xmlns=\"urn:x\">TAG-{x}-OK</t></data>"))
            };
            let valid_reply = &valid_reply[..valid_reply.len() - MARKER.len()];
            let (mutated, what) = if forged {
                let id = x + 1;
                let body = *ctx.tape.choose(&["<ok/>", "<data><t xmlns=\"urn:x\">FORGED</t></data>", "<bogus/>", "<rpc-error><error-type>application</error-type><error-tag>operation-failed</error-tag><error-severity>error</error-severity></rpc-error>", ""]);
                let m = reply(&format!("{id}"), body);
                (m[..m.len() - MARKER.len()].to_vec(), format!("forged-second-reply {body}"))
            } else if target == Target::Hello {
                mutate(ctx, valid_hello, valid_reply)
            } else {
                mutate(ctx, valid_reply, valid_hello)
            };
            let genuine_first = forged.then(|| reply(&format!("{}", x + 1), &format!("<data><t xmlns=\"urn:x\">TAG-{x}-OK</t></data>")));
            ev!(ctx, "{target:?} n={n} x={x} op={} permute={permute}: {what}", OPS[op]);
            ev!(ctx, "bytes {}", String::from_utf8_lossy(&mutated[..mutated.len().min(300)]));
            ctx.count(&format!("fault.{}", what.split(|c: char| c == '@' || c.is_ascii_digit()).next().unwrap_or("").trim()));
            // a delimiter inside the mutated bytes would be cut by any real transport: keep the first part
            let mutated = match crate::ssim::find(&mutated, MARKER.as_bytes()) {
                Some(p) => mutated[..p].to_vec(),
                None => mutated,
            };
            // ambiguity guard: the bytes must not name another outstanding request
            if target == Target::Reply {
                let text = String::from_utf8_lossy(&mutated);
                // the value of the first message-id attribute, read as a number the way integer parsers
                // commonly do ("+3", "03" and " 3" all name request 3)
                let named: Option<u64> = text.split("message-id=").nth(1).and_then(|r| {
                    let q = r.chars().next()?;
                    if q != '"' && q != '\'' {
                        return None;
                    }
                    let v: String = r[1..].chars().take_while(|c| *c != q).collect();
                    v.trim().parse::<u64>().ok()
                });
                for w in 0..n {
                    if w != x && (text.contains(&format!("message-id=\"{}\"", w + 1)) || text.contains(&format!("message-id='{}'", w + 1)) || named == Some(w as u64 + 1)) {
                        ctx.count("skipped.names_another_request");
                        return Verdict::Pass;
                    }
                }
            }
            ctx.nontrivial = true;
            // the clear-cut case of attributable damage: a reply cut short behind its intact start tag
            let attributable = target == Target::Reply && what.starts_with("truncate@") && attributable_to(&mutated, &format!("{}", x + 1));
            let results: Arc<Mutex<BTreeMap<usize, String>>> = Arc::default();
            let est: Arc<Mutex<Option<String>>> = Arc::default();
            let (results2, est2) = (results.clone(), est.clone());
            let (hello, server) = if target == Target::Hello {
                let mut h = mutated.clone();
                h.extend_from_slice(MARKER.as_bytes());
                (h, Fake { n: 0, target_k: None, mutated: Vec::new(), genuine_first: None })
            } else {
                (hello_with(&[CAP_BASE10, CAP_JUNOS], "21"), Fake { n: 0, target_k: Some(x), mutated, genuine_first })
            };
            let cfg = SchedCfg { permute, spurious: 0, max_steps: 50_000, ..SchedCfg::default() };
            let (q, exec) = drive(ctx, Box::new(server), Some(hello), cfg, move |net, spawner| {
                Box::pin(async move {
                    let mut s = match Session::verif_new(SimTransport(net)).await {
                        Ok(s) => {
                            *est2.lock().unwrap() = Some("established".into());
                            s
                        }
                        Err(e) => {
                            *est2.lock().unwrap() = Some(format!("refused: {}", format!("{e:?}").chars().take(200).collect::<String>()));
                            return;
                        }
                    };
                    type F = std::pin::Pin<Box<dyn std::future::Future<Output = String> + Send>>;
                    for k in 0..n {
                        let this_op = if target == Target::Reply && k == x { op } else { 0 };
                        let f: Result<F, Error> = match this_op {
                            0 => s.rpc::<Get, _>(|b| b.finish()).await.map(|f| Box::pin(async move { show(f.await) }) as F),
                            1 => s.rpc::<Lock, _>(|b| b.target(Datastore::Running)?.finish()).await.map(|f| Box::pin(async move { show(f.await) }) as F),
                            2 => s.rpc::<OpenConfiguration, _>(|b| b.ephemeral(Some("db")).finish()).await.map(|f| Box::pin(async move { show(f.await) }) as F),
                            3 => s.rpc::<CloseConfiguration, _>(|b| b.finish()).await.map(|f| Box::pin(async move { show(f.await) }) as F),
                            4 => s
                                .rpc::<LoadConfiguration<_>, _>(|b| b.source(Config::new(Opaque::from("<configuration/>"), Xml, Merge)).finish())
                                .await
                                .map(|f| Box::pin(async move { show(f.await) }) as F),
                            _ => s.rpc::<CommitConfiguration, _>(|b| b.finish()).await.map(|f| Box::pin(async move { show(f.await) }) as F),
                        };
                        match f {
                            Ok(f) => {
                                let r = results2.clone();
                                spawner.spawn(format!("F{k}"), false, async move {
                                    let text = f.await;
                                    r.lock().unwrap().insert(k, text);
                                });
                            }
                            Err(e) => {
                                results2.lock().unwrap().insert(k, format!("Err(send failed: {e:?})"));
                            }
                        }
                    }
                })
            });
            if let Some((t, m)) = exec.panics.first() {
                return Verdict::violation(format!("panic/{target:?}"), format!("{what}: task {t} panicked: {m}"));
            }
            let alive = match q {
                Quiescence::StepBudget => return Verdict::violation("hang/step-budget", format!("{what}: no quiescence after {} steps", exec.steps)),
                Quiescence::Quiet(a) => a,
            };
            let est = est.lock().unwrap().clone();
            let results = results.lock().unwrap().clone();
            ctx.count(match est.as_deref() {
                Some("established") => "outcome.established",
                Some(_) => "outcome.refused",
                None => "outcome.none",
            });
            if est.is_none() {
                return Verdict::violation("hang/establishment", format!("{what}: session establishment neither succeeded nor failed; alive {alive:?}"));
            }
            if est.as_deref() != Some("established") {
                return Verdict::Pass;
            }
            // a reply that was cut short behind an intact <rpc-reply message-id="x"> start tag is
            // attributable to its owner (the first parse phase reads only that tag): nobody else may be
            // disturbed, and the owner must get an answer (value or error). Other damage behind an intact
            // start tag (trailing bytes after the root, mismatched tags inside it) is judged leniently.
            if target == Target::Reply && attributable {
                ctx.count("probe.truncated_reply_attributable_to_its_owner");
                for k in 0..n {
                    if k == x {
                        continue;
                    }
                    match results.get(&k) {
                        Some(v) if v.starts_with("Ok(") && v.contains(&format!("TAG-{k}-OK")) => {}
                        other => {
                            return Verdict::violation(
                                "truncated-reply-disturbs-another-request",
                                format!("{what}: the truncated reply still names its owner #{x} in an intact start tag, but request #{k} resolved to {other:?}; results {results:?}"),
                            )
                        }
                    }
                }
                if !results.contains_key(&x) {
                    return Verdict::violation("truncated-reply-owner-never-answered", format!("{what}: the truncated reply still names its owner #{x} in an intact start tag, but that request never completed; results {results:?}"));
                }
            }
            if forged {
                ctx.count("probe.second_message_with_the_id_of_an_answered_request");
                match results.get(&x) {
                    Some(v) if v.starts_with("Ok(") && v.contains(&format!("TAG-{x}-OK")) => {}
                    other => {
                        return Verdict::violation(
                            "genuine-reply-replaced-by-later-message",
                            format!("{what}: the genuine reply to request #{x} was delivered before a second message with the same message-id, but the request resolved to {other:?}; results {results:?}"),
                        )
                    }
                }
            }
            // everybody but the owner of the destroyed reply (and at most one innocent reader) gets its own reply
            let mut collateral = Vec::new();
            for k in 0..n {
                let own = format!("TAG-{k}-OK");
                match results.get(&k) {
                    Some(v) => {
                        for j in 0..n {
                            // (the owner of the mutated reply gets whatever the mutation made of its payload -
                            // a flipped bit can turn its tag into somebody else's)
                            if target == Target::Reply && !forged && k == x {
                                break;
                            }
                            if j != k && v.starts_with("Ok(") && v.contains(&format!("TAG-{j}-OK")) {
                                return Verdict::violation("wrong-reply", format!("{what}: request #{k} resolved to the reply of #{j}: {v}"));
                            }
                        }
                        if v.starts_with("Ok(") && v.contains(&own) {
                            continue;
                        }
                        if target == Target::Reply && k == x {
                            ctx.count(if v.starts_with("Ok(") { "outcome.target_value" } else { "outcome.target_error" });
                            continue;
                        }
                        collateral.push((k, v.clone()));
                    }
                    None => {
                        if target == Target::Reply && k == x {
                            ctx.count("outcome.target_never_completes");
                            continue;
                        }
                        return Verdict::violation("other-request-stuck", format!("{what}: request #{k} (not the one whose reply was mutated, #{x}) never completed; results {results:?}"));
                    }
                }
            }
            if target == Target::Hello && !collateral.is_empty() {
                return Verdict::violation("request-failed-after-accepted-hello", format!("{what}: {collateral:?}"));
            }
            if collateral.len() > 1 {
                return Verdict::violation("other-requests-disturbed", format!("{what}: more than one other request failed: {collateral:?}"));
            }
            if let Some((k, v)) = collateral.first() {
                // the innocent reader of an unattributable message; the owner must then not have got it
                ctx.count("outcome.innocent_reader_error");
                if results.get(&x).is_some_and(|r| !r.contains(&format!("TAG-{x}-OK"))) && results.get(&x).is_some() && *k != x {
                    return Verdict::violation("other-requests-disturbed", format!("{what}: both the owner #{x} ({:?}) and request #{k} ({v}) were affected by one message", results.get(&x)));
                }
            }
            Verdict::Pass
        }
    }
}

pub static C14: PropSpec = PropSpec {
    id: "C14",
    simulator: "S-sim (+ reader facades, + R-sim)",
    level: "exploration",
    runs: |t| if t == Tier::Thorough { 12_000_000 } else { 120_000 },
    enumerated: |_| 0,
    run,
    rule: "one run in 150: over the real TLS / SSH / local transport 2-4 pipelined requests whose replies, plus one hostile message (not UTF-8, not XML, cut short, empty) at a seeded place, arrive as one byte stream cut at 0-3 seeded positions (so several messages can arrive in one delivery): every call must complete within 5 virtual seconds, a value must be the caller's own reply. one run in 150: over the real TLS / SSH / local transport the hello or a reply is cut short at a seeded offset and the peer then closes (every close kind of C07) with 1-3 requests outstanding; every pending and one further call must fail within 5 virtual seconds, a spinning receive loop is caught by the watchdog. Otherwise: a session with 1-4 outstanding get requests (each awaited in its own task, replies in order or permuted); the server hello or the reply to one request is replaced by a mutation of the valid message: truncation at any offset, splice with another message, 1-3 byte flips, duplicated region, huge / negative message-id, invalid UTF-8, wrong namespace, 64 KiB (thorough: 4 MiB) of text, random bytes, empty message, deep nesting, huge numbers, two roots, duplicate attributes, DOCTYPE + comments, the text of one leaf or the value of one attribute replaced by a generated value (0-140 ASCII bytes followed by 0-59 repetitions of a 2-, 3- or 4-byte character, blank, entity or character reference; or a number from 0 to beyond 2^64, negative, signed, in other notations). The request whose reply is mutated is one of get, lock, open-, close-, load- and commit-configuration, and its valid base reply one of that operation's shapes (data, <ok/>, empty, warning, load-configuration-results with a warning and an error count) or a complete <rpc-error> reply, so that every reply reader is reached. The same mutations are applied to running / ephemeral configuration documents fed to the agent's readers. Non-trivial = a mutation was delivered; distinct = distinct event-log hash",
    components: &[
        ("netconf session + message readers", "real"),
        ("junos-agent policies/fetch.rs readers via the verif facade", "real"),
        ("transport", "stub: in-memory (delivers delimiter-terminated messages, like the real ones); one run in 150: the real TLS / SSH / local transports against the scripted R-sim peer"),
    ],
    assumptions: &[
        "a mutation whose bytes name another outstanding request's message-id - literally or in another spelling of the same number (\"+3\", \"03\") - is skipped (its effect on that request would be legitimate)",
        "when the damaged reply no longer names its owner (start tag or message-id destroyed, not UTF-8): completion of the owner is not demanded, and at most one other caller (the one that happened to read the unattributable message) may see an error. For a reply that is merely cut short behind an intact <rpc-reply message-id=x> start tag in the base namespace the strict form applies: every other request gets its own reply and the owner gets an answer",
        "a poll that never returns is detected by the worker watchdog (20 s of real time) and reported as class 'spin'",
    ],
    watchdog_s: 20,
    stuck_is_verdict: true,
    serial: false,
};
