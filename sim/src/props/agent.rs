//! C01, C02, C03, C04, C15 — A-sim: histories of real agent runs against FakeJunos + FakeIrrd.

use std::collections::{BTreeMap, BTreeSet};
use std::sync::{Arc, Mutex};

use crate::asim::{connector, data_doc, render_ephemeral, runtime, with_shared, Body, EphDb, EphPolicy, FaultKind, Junos, ReplyKind, ReqLog, RunningPolicy};
use crate::core::{Ctx, PropSpec, Rng, Tier, Verdict};
use crate::ev;
use crate::irrd::{atoms_of, gen_db, gen_expr, install, reference_eval, uninstall, v4_prefix, v6_prefix, Db, Fault, GenCfg, IrrState};

#[derive(Clone, Copy, Debug, PartialEq, Eq)]
pub enum Focus {
    C01,
    C02,
    C03,
    C04,
    C15,
}

pub type Range = (String, u8, u8);

#[derive(Clone, Debug, PartialEq, Eq)]
pub enum Expect {
    /// evaluable: (ipv4 ranges, ipv6 ranges)
    Target(BTreeSet<Range>, BTreeSet<Range>),
    /// annotated and active, but the prefix data cannot be obtained (or the annotation does not parse)
    Unobtainable(String),
}

#[derive(Clone, Debug)]
pub struct World {
    pub db: Db,
    pub policies: Vec<RunningPolicy>,
    pub instance: String,
}

const NAMES: [&str; 14] = ["fltr-foo", "fltr-bar", "CUSTOMER-IN", "as65000-import", "peer.v4", "fltr_baz", "x", "policy-with-a-rather-long-name-0123456789", "a&b", "x<y", "q\"uote", "it's", "ü-policy", "日本"];

pub fn annotation_of(p: &RunningPolicy) -> Option<&str> {
    p.comment.as_deref().and_then(|c| c.trim().strip_prefix("bgpfu-fltr:"))
}

/// annotated with the bgpfu-fltr prefix and active: "still marked as managed"
pub fn marked(p: &RunningPolicy) -> bool {
    p.active != Some(false) && annotation_of(p).is_some()
}

fn parse_range(s: &str) -> Option<Range> {
    // "10.0.0.0/8^8-8" (Display of a prefix range) or "10.0.0.0/8,8,8" (facade)
    if let Some((p, r)) = s.split_once('^') {
        let (l, u) = r.split_once('-')?;
        return Some((p.to_string(), l.parse().ok()?, u.parse().ok()?));
    }
    let mut it = s.split(',');
    Some((it.next()?.to_string(), it.next()?.parse().ok()?, it.next()?.parse().ok()?))
}

pub fn split_families(ranges: &[String]) -> (BTreeSet<Range>, BTreeSet<Range>) {
    let mut v4 = BTreeSet::new();
    let mut v6 = BTreeSet::new();
    for r in ranges {
        if let Some(x) = parse_range(r) {
            if x.0.contains(':') {
                v6.insert(x);
            } else {
                v4.insert(x);
            }
        }
    }
    (v4, v6)
}

pub fn expectations(w: &World) -> BTreeMap<String, Expect> {
    let mut m = BTreeMap::new();
    for p in &w.policies {
        if !marked(p) || p.body != Body::DefaultReject {
            continue;
        }
        let expr = annotation_of(p).unwrap_or("").trim();
        let e = match reference_eval(&w.db, expr) {
            Ok(r) => {
                let (v4, v6) = split_families(&r);
                Expect::Target(v4, v6)
            }
            Err(why) => Expect::Unobtainable(why),
        };
        m.insert(p.name.clone(), e);
    }
    m
}

fn simple_expr(ctx: &mut Ctx, db: &Db) -> String {
    let atoms = atoms_of(db);
    let depth = ctx.tape.weighted(&[3, 3, 1]);
    gen_expr(ctx, &atoms, depth)
}

fn gen_policy(ctx: &mut Ctx, db: &mut Db, focus: Focus, name: String) -> RunningPolicy {
    // kinds: 0 evaluable, 1 unknown as-set, 2 broken as-set, 3 unparseable, 4 unevaluable construct,
    //        5 no annotation, 6 unrelated comment, 7 inactive, 8 empty result
    let weights: [usize; 9] = match focus {
        Focus::C01 | Focus::C02 => [12, 1, 0, 0, 0, 2, 1, 1, 2],
        Focus::C03 => [6, 4, 4, 4, 2, 1, 1, 1, 1],
        Focus::C04 => [10, 0, 0, 0, 0, 1, 0, 0, 1],
        Focus::C15 => [8, 2, 2, 0, 5, 1, 0, 0, 1],
    };
    let kind = ctx.tape.weighted(&weights);
    let mut p = RunningPolicy { name, comment: None, decorate: ctx.tape.weighted(&[6, 1, 1, 1]), active: None, body: Body::DefaultReject, attr_variant: 0 };
    match kind {
        0 => p.comment = Some(format!("bgpfu-fltr: {}", simple_expr(ctx, db))),
        1 => p.comment = Some(format!("bgpfu-fltr: {}", *ctx.tape.choose(&["AS-NOSUCHSET", "AS-NOSUCHSET AND { 10.0.0.0/8^+ }", "AS64500 OR AS-NOSUCHSET"]))),
        2 => {
            let set = ctx.tape.choose(&db.as_sets.keys().cloned().collect::<Vec<_>>()).clone();
            let f = *ctx.tape.choose(&[Fault::Other, Fault::NotUnique, Fault::NotFound]);
            db.broken_as_sets.insert(set.clone(), f);
            p.comment = Some(format!("bgpfu-fltr: {set}"));
        }
        3 if focus == Focus::C03 && db.reset_on_as_set.is_none() && ctx.pick(3) == 0 => {
            // the IRR connection breaks while this policy's members query is outstanding
            let set = ctx.tape.choose(&db.as_sets.keys().cloned().collect::<Vec<_>>()).clone();
            db.reset_on_as_set = Some(set.clone());
            p.comment = Some(format!("bgpfu-fltr: {set}"));
        }
        3 => p.comment = Some(format!("bgpfu-fltr: {}", *ctx.tape.choose(&["AS-FOO AND", "error!", "{ 10.0.0.0/8", "AS65000 ^^ 7", ""]))),
        4 => p.comment = Some(format!("bgpfu-fltr: {}", *ctx.tape.choose(&["PeerAS", "<^AS65000 AS65001*$>", "community(65000:1)", "AS64500 AND <^AS1>", "PeerAS OR AS64501"]))),
        5 => {
            p.body = if ctx.pick(2) == 0 { Body::Terms } else { Body::DefaultReject };
        }
        6 => {
            p.comment = Some("managed by hand".into());
            p.body = Body::Terms;
        }
        7 => {
            p.comment = Some(format!("bgpfu-fltr: {}", simple_expr(ctx, db)));
            p.active = Some(false);
            p.attr_variant = ctx.pick(2);
        }
        _ => p.comment = Some(format!("bgpfu-fltr: {}", *ctx.tape.choose(&["AS64999", "{ }", "AS64500 AND AS64999", "AS-NOSUCHSET AND NOT ANY"]))),
    }
    if kind != 7 && ctx.chance(1, 8) {
        p.active = Some(true);
        p.attr_variant = ctx.pick(2);
    }
    p
}

fn fresh_name(ctx: &mut Ctx, taken: &[RunningPolicy], special_names: bool) -> String {
    let limit = if special_names { NAMES.len() } else { 8 };
    let base = NAMES[ctx.tape.weighted(&vec![2; limit])];
    let mut name = base.to_string();
    let mut i = 0;
    while taken.iter().any(|p| p.name == name) {
        i += 1;
        name = format!("{base}-{i}");
    }
    name
}

pub fn gen_world(ctx: &mut Ctx, focus: Focus) -> World {
    let cfg = if ctx.tier == Tier::Thorough { GenCfg { max_as: 10, max_sets: 6, max_routes_per_as: 6, rich_filter_sets: false } } else { GenCfg { max_as: 5, max_sets: 4, max_routes_per_as: 3, rich_filter_sets: false } };
    let mut db = gen_db(ctx, &cfg);
    let max_p = if ctx.tier == Tier::Thorough { 10 } else { 5 };
    let n = 1 + ctx.pick(max_p);
    let special = matches!(focus, Focus::C01) && ctx.chance(1, 4);
    let mut policies: Vec<RunningPolicy> = Vec::new();
    for _ in 0..n {
        let name = fresh_name(ctx, &policies, special);
        let p = gen_policy(ctx, &mut db, focus, name);
        policies.push(p);
    }
    if focus == Focus::C15 && ctx.chance(1, 8) {
        // an IRR mirror without IPv6 data (every !6 query is answered with an error, which the
        // client sinks) and one policy over a large as-set: dozens of sunk errors in one evaluation
        // must not change how the other policies fare
        db.fail_all_v6 = true;
        let members: Vec<String> = (0..70 + ctx.pick(30)).map(|i| format!("AS{}", 65_100 + i)).collect();
        for (i, m) in members.iter().enumerate() {
            db.routes.insert(m.clone(), (vec![format!("10.{}.{}.0/24", 100 + i / 250, i % 250)], vec![format!("2001:db8:{:x}::/48", 0x4000 + i)]));
        }
        db.as_sets.insert("AS-BIG".into(), members);
        let name = fresh_name(ctx, &policies, false);
        policies.push(RunningPolicy { name, comment: Some("bgpfu-fltr: AS-BIG".into()), decorate: 0, active: None, body: Body::DefaultReject, attr_variant: 0 });
        ctx.count("probe.large_as_set_on_a_mirror_without_ipv6_data");
    }
    let instance = (*ctx.tape.choose(&["bgpfu", "bgpfu", "irr-filters", "eph_1"])).to_string();
    World { db, policies, instance }
}

fn mutate_world(ctx: &mut Ctx, w: &mut World, focus: Focus) {
    let n = 1 + ctx.pick(3);
    for _ in 0..n {
        match ctx.pick(9) {
            0 => {
                // routes of an AS change
                let keys: Vec<String> = w.db.routes.keys().cloned().collect();
                let k = ctx.tape.choose(&keys).clone();
                let e = w.db.routes.get_mut(&k).unwrap();
                match ctx.pick(4) {
                    0 => e.0.clear(),
                    1 => e.1.clear(),
                    2 => e.0.push(v4_prefix(ctx)),
                    _ => e.1.push(v6_prefix(ctx)),
                }
            }
            1 => {
                // set membership changes
                let keys: Vec<String> = w.db.as_sets.keys().cloned().collect();
                let k = ctx.tape.choose(&keys).clone();
                let asns: Vec<String> = w.db.routes.keys().cloned().collect();
                let m = w.db.as_sets.get_mut(&k).unwrap();
                if ctx.pick(2) == 0 && !m.is_empty() {
                    let i = ctx.pick(m.len());
                    m.remove(i);
                } else {
                    m.push(ctx.tape.choose(&asns).clone());
                }
            }
            2 => {
                // a policy loses its annotation
                if !w.policies.is_empty() {
                    let i = ctx.pick(w.policies.len());
                    w.policies[i].comment = None;
                }
            }
            3 => {
                if !w.policies.is_empty() {
                    let i = ctx.pick(w.policies.len());
                    w.policies[i].active = Some(false);
                }
            }
            4 => {
                if !w.policies.is_empty() {
                    let i = ctx.pick(w.policies.len());
                    w.policies.remove(i);
                }
            }
            5 => {
                if !w.policies.is_empty() {
                    let i = ctx.pick(w.policies.len());
                    let name = fresh_name(ctx, &w.policies, false);
                    w.policies[i].name = name;
                }
            }
            6 => {
                // (only statements consisting of a default reject: annotating another body is C16's subject)
                let idx: Vec<usize> = w.policies.iter().enumerate().filter(|(_, p)| p.body == Body::DefaultReject).map(|(i, _)| i).collect();
                if !idx.is_empty() {
                    let i = *ctx.tape.choose(&idx);
                    let e = simple_expr(ctx, &w.db);
                    w.policies[i].comment = Some(format!("bgpfu-fltr: {e}"));
                }
            }
            7 => {
                let name = fresh_name(ctx, &w.policies, false);
                let p = gen_policy(ctx, &mut w.db, focus, name);
                w.policies.push(p);
            }
            _ => {
                // a broken as-set recovers / an annotation becomes unparseable (C03)
                if focus == Focus::C03 && !w.policies.is_empty() {
                    let i = ctx.pick(w.policies.len());
                    w.policies[i].comment = Some("bgpfu-fltr: AS-FOO AND".into());
                } else {
                    w.db.broken_as_sets.clear();
                    w.db.reset_on_as_set = None;
                }
            }
        }
    }
}

/// irrc 0.1.0 never returns from `Pipeline::drop` when a query cannot be written to a dead
/// connection (its drain loop retries the flush for ever). That is in the dependency, outside
/// the repository; so in a world where the IRR connection breaks during one policy's members
/// query, the other policies only use literal prefix sets (which need no IRR query).
fn sanitize_for_io_fault(ctx: &mut Ctx, w: &mut World) {
    let Some(victim_set) = w.db.reset_on_as_set.clone() else { return };
    let mut victim_seen = false;
    for p in &mut w.policies {
        let Some(expr) = annotation_of(p).map(|e| e.trim().to_string()) else { continue };
        if expr.eq_ignore_ascii_case(&victim_set) && !victim_seen {
            victim_seen = true;
            continue;
        }
        let uses_irr = expr.contains("AS") || expr.contains("RS-") || expr.contains("FLTR-") || expr.contains("as") || expr.contains("rs-");
        if uses_irr && expr.parse::<rpsl::expr::MpFilterExpr>().is_ok() {
            p.comment = Some(format!("bgpfu-fltr: {}", crate::irrd::gen_literal_set(ctx)));
        }
    }
    if !victim_seen {
        w.db.reset_on_as_set = None;
    }
}

#[derive(Clone, Debug)]
pub struct RunObs {
    pub result: Result<(), String>,
    pub sessions: Vec<Vec<ReqLog>>,
    pub opened: Vec<Option<String>>,
    pub before: EphDb,
    pub after: EphDb,
    pub irr_queries: usize,
}

/// accept-set per family of a policy in the model, or a structural problem
pub fn accept_sets(p: &EphPolicy) -> Result<(BTreeSet<Range>, BTreeSet<Range>), String> {
    let mut v4 = BTreeSet::new();
    let mut v6 = BTreeSet::new();
    for t in &p.terms {
        if t.then.is_empty() {
            // a term without action does not accept anything; it is reported by the read-back check
            continue;
        }
        if t.then != ["accept"] {
            return Err(format!("term {} has action {:?}", t.name, t.then));
        }
        let fam = match t.family.as_deref() {
            Some("inet") => &mut v4,
            Some("inet6") => &mut v6,
            other => return Err(format!("accepting term {} is not restricted to one address family ({other:?})", t.name)),
        };
        if t.filters.is_empty() {
            return Err(format!("accepting term {} has no route-filter: it accepts the whole family", t.name));
        }
        for (a, r) in &t.filters {
            let (l, u) = r.split_once('-').ok_or_else(|| format!("bad range {r}"))?;
            let l: u8 = l.trim_start_matches('/').parse().map_err(|_| format!("bad range {r}"))?;
            let u: u8 = u.trim_start_matches('/').parse().map_err(|_| format!("bad range {r}"))?;
            if a.contains(':') != (t.family.as_deref() == Some("inet6")) {
                return Err(format!("term {} ({:?}) contains a prefix of the other family: {a}", t.name, t.family));
            }
            fam.insert((a.clone(), l, u));
        }
    }
    Ok((v4, v6))
}

fn digest(db: &EphDb) -> BTreeMap<String, String> {
    db.iter().map(|(n, p)| (n.clone(), format!("{:?} then {:?}", accept_sets(p), p.then))).collect()
}

fn irr_state(ctx: &mut Ctx, db: &Db) -> Arc<Mutex<IrrState>> {
    let seg_mode = ctx.tape.weighted(&[3, 1, 2]);
    let seed = ctx.pick(1 << 20) as u64;
    Arc::new(Mutex::new(IrrState { db: db.clone(), empty_is_not_found: ctx.pick(2) == 0, seg_mode, seg_rng: Some(Rng(seed)), ..IrrState::default() }))
}

pub struct History {
    pub rt: tokio::runtime::Runtime,
}

/// One agent run against the current world. `junos` carries the router state across runs.
pub fn agent_run(ctx: &mut Ctx, hist: &History, w: &World, junos: Junos, irr_refuse: bool) -> (RunObs, Junos) {
    let before = junos.instances.get(&w.instance).cloned().unwrap_or_default();
    let first_session = junos.sessions.len();
    let irr = irr_state(ctx, &w.db);
    irr.lock().unwrap().refuse = irr_refuse;
    install(irr.clone());
    let mut junos = junos;
    junos.running = w.policies.clone();
    let instance = w.instance.clone();
    let delays = vec![0, 0, 0, 1, 3, 20, 200];
    // half of the runs: the first poll of every task the agent spawns is delayed by a seeded 0-3 ms of
    // virtual time, so that the order in which its tasks reach the session's locks varies (as it does
    // on a multi-threaded runtime)
    let chaos = (ctx.pick(2) == 1).then(|| 1 + ctx.pick(1 << 30) as u64);
    if chaos.is_some() {
        ctx.count("sched.spawned_tasks_start_in_seeded_order");
    }
    let (result, junos) = with_shared(ctx, junos, delays, |sh| {
        let conn = connector(sh.clone());
        shim::chaos::set(chaos);
        struct ChaosOff;
        impl Drop for ChaosOff {
            fn drop(&mut self) {
                shim::chaos::set(None);
            }
        }
        let _off = ChaosOff;
        // a panic of the agent outside its spawned tasks ends the process: for the oracles that is a
        // run that failed without a clean error ("the agent panicked: ...")
        let r = match std::panic::catch_unwind(std::panic::AssertUnwindSafe(|| hist.rt.block_on(async move {
            // on the paused clock a run that waits for something that never comes reaches this
            // deadline at once (the clock jumps when every task is idle): a hang is a failed run
            match tokio::time::timeout(std::time::Duration::from_secs(86_400), agent::verif::run_once(conn, "irrd.sim", 43, &instance)).await {
                Ok(r) => r,
                Err(_) => Err(anyhow::anyhow!("the run was still waiting after one simulated day (it would hang for ever)")),
            }
        }))) {
            Ok(r) => r,
            Err(p) => {
                let msg = p.downcast_ref::<String>().cloned().or_else(|| p.downcast_ref::<&str>().map(|s| (*s).to_string())).unwrap_or_default();
                Err(anyhow::anyhow!("the agent panicked: {msg}"))
            }
        };
        // tokio task ids are process-global counters: mask every "task <n>"
        r.map_err(|e| {
            let s = format!("{e:#}");
            let mut out = String::new();
            let mut rest = s.as_str();
            while let Some(i) = rest.find("task ") {
                out.push_str(&rest[..i + 5]);
                let tail = &rest[i + 5..];
                let digits = tail.len() - tail.trim_start_matches(|c: char| c.is_ascii_digit()).len();
                if digits > 0 {
                    out.push('N');
                }
                rest = &tail[digits..];
            }
            out.push_str(rest);
            out
        })
    });
    uninstall();
    let after = junos.instances.get(&w.instance).cloned().unwrap_or_default();
    let sessions: Vec<Vec<ReqLog>> = junos.sessions[first_session..].iter().map(|s| s.log.clone()).collect();
    let opened = junos.sessions[first_session..]
        .iter()
        .map(|s| s.log.iter().find(|r| r.op == "open-configuration").and_then(|r| crate::xml::parse_lenient_ns(&r.raw).ok()).and_then(|d| d.root.elems().next().and_then(|o| o.child("ephemeral-instance").map(crate::xml::Elem::text))))
        .collect();
    let st = irr.lock().unwrap();
    ctx.count_n("net.irr_short_read", st.short_reads as u64);
    for (_, q, f) in &st.faults_fired {
        if q.starts_with("RESET") {
            ctx.count("fault.irr_connection_reset_during_members_query");
        } else {
            ctx.count(&format!("fault.irr_{f:?}_on_{}", &q[..2.min(q.len())]));
        }
    }
    if irr_refuse {
        ctx.count("fault.irr_connection_refused");
    }
    let obs = RunObs { result, sessions, opened, before, after, irr_queries: st.queries.len() };
    ev!(ctx, "run result {:?}; ops {:?}", obs.result, obs.sessions.iter().map(|s| s.iter().map(|r| r.op.as_str()).collect::<Vec<_>>()).collect::<Vec<_>>());
    (obs, junos)
}

/// One agent run by the agent EXECUTABLE (child process, real clock, own hash seeds): FakeJunos is
/// served over a real TLS listener, FakeIrrd over a loopback TCP socket, and the process is started
/// in one-shot mode with the options a user would give. Only the outcome enters the event log.
pub fn agent_run_executable(ctx: &mut Ctx, w: &World, junos: Junos) -> (RunObs, Junos) {
    use std::io::Read;
    use std::sync::atomic::{AtomicBool, Ordering};
    let mut junos = junos;
    // (see below: the instance is kept in name / filter order around a run of the executable, so that
    // an untouched policy looks the same before and after)
    if let Some(db) = junos.instances.get_mut(&w.instance) {
        db.sort_by(|a, b| a.0.cmp(&b.0));
        for (_, policy) in db.iter_mut() {
            for term in &mut policy.terms {
                term.filters.sort();
            }
        }
    }
    let before = junos.instances.get(&w.instance).cloned().unwrap_or_default();
    let first_session = junos.sessions.len();
    let irr = irr_state(ctx, &w.db);
    junos.running = w.policies.clone();
    junos.faults.clear();
    let shared = Arc::new(Mutex::new(junos));
    let stop = Arc::new(AtomicBool::new(false));
    let pki = crate::rsim::PKI;
    let result: Result<(), String> = (|| {
        let (jport, jt) = crate::asim::serve_junos_tls(shared.clone(), stop.clone()).map_err(|e| format!("harness: TLS listener: {e}"))?;
        let (iport, it) = crate::irrd::serve_tcp(irr.clone(), stop.clone()).map_err(|e| format!("harness: IRRd listener: {e}"))?;
        let exe = super::c20_agent::agentbin_path();
        let mut cmd = std::process::Command::new(&exe);
        cmd.env_clear()
            .env("RUST_BACKTRACE", "0")
            .args(["-f", "0", "--ephemeral-db", &w.instance, "--irrd-host", "127.0.0.1", "--irrd-port", &iport.to_string()])
            .args(["remote", "--netconf-host", "127.0.0.1", "--netconf-port", &jport.to_string(), "--tls-server-name", "localhost"])
            .args(["--ca-cert-path", &format!("{pki}/ca.crt"), "--client-cert-path", &format!("{pki}/client.crt"), "--client-key-path", &format!("{pki}/client.key")])
            .stdin(std::process::Stdio::null())
            .stdout(std::process::Stdio::null())
            .stderr(std::process::Stdio::piped());
        let child = crate::core::spawn_retry(&mut cmd);
        let mut child = match child {
            Ok(c) => c,
            Err(e) => {
                stop.store(true, Ordering::Relaxed);
                let _ = (jt.join(), it.join());
                return Err(format!("harness: spawn {exe:?}: {e}"));
            }
        };
        let mut se = child.stderr.take().expect("stderr");
        let t_err = std::thread::spawn(move || {
            let mut v = String::new();
            let _ = se.read_to_string(&mut v);
            v
        });
        let t0 = std::time::Instant::now();
        let status = loop {
            match child.try_wait() {
                Ok(Some(s)) => break Some(s),
                Ok(None) if t0.elapsed() > std::time::Duration::from_secs(40) => {
                    let _ = child.kill();
                    let _ = child.wait();
                    break None;
                }
                Ok(None) => {
                    crate::core::beat();
                    std::thread::sleep(std::time::Duration::from_millis(1));
                }
                Err(_) => break None,
            }
        };
        stop.store(true, Ordering::Relaxed);
        let _ = (jt.join(), it.join());
        let err = super::c20_agent::strip_ansi(&t_err.join().unwrap_or_default());
        if ctx.live {
            eprintln!("--- agent process stderr ---\n{err}\n--- queries {:?}", irr.lock().unwrap().queries);
        }
        match status {
            Some(s) if s.success() => Ok(()),
            Some(_) => {
                // ports are not part of the event log
                let last: String = err.lines().filter(|l| l.contains("ERROR") || l.contains("Error")).last().unwrap_or("").chars().filter(|c| !c.is_ascii_digit()).take(300).collect();
                Err(format!("the agent process exited with a failure status: {last}"))
            }
            None => Err("harness: the agent process was still running after 40 s".to_string()),
        }
    })();
    let mut g = shared.lock().unwrap();
    let mut junos = std::mem::take(&mut *g);
    drop(g);
    // the child process has its own hash seeds, so the order in which it loaded the policies - and with
    // it the order of the statements in the instance and of the route-filters in a term - is not a function
    // of the tape: put them in order, or the bytes of later replies (and what a fault cuts out of them) would differ
    // between two executions of the same run
    if let Some(db) = junos.instances.get_mut(&w.instance) {
        db.sort_by(|a, b| a.0.cmp(&b.0));
        for (_, policy) in db.iter_mut() {
            for term in &mut policy.terms {
                term.filters.sort();
            }
        }
    }
    let after = junos.instances.get(&w.instance).cloned().unwrap_or_default();
    let sessions: Vec<Vec<ReqLog>> = junos.sessions[first_session..].iter().map(|s| s.log.clone()).collect();
    let opened = junos.sessions[first_session..]
        .iter()
        .map(|s| s.log.iter().find(|r| r.op == "open-configuration").and_then(|r| crate::xml::parse_lenient_ns(&r.raw).ok()).and_then(|d| d.root.elems().next().and_then(|o| o.child("ephemeral-instance").map(crate::xml::Elem::text))))
        .collect();
    let irr_queries = irr.lock().unwrap().queries.len();
    let obs = RunObs { result, sessions, opened, before, after, irr_queries };
    ctx.count("runs.agent_executable_end_to_end");
    // the child has its own hash seeds: the order of its pipelined loads is not part of the event log
    let mut ops: Vec<&str> = obs.sessions.iter().flatten().map(|r| r.op.as_str()).collect();
    ops.sort_unstable();
    ev!(ctx, "executable run result {:?}; ops (sorted) {:?}", obs.result, ops);
    (obs, junos)
}

// ---------------------------------------------------------------------------------------------
// oracles
// ---------------------------------------------------------------------------------------------

const ALLOWED_OPS: [&str; 6] = ["open-configuration", "get-config", "load-configuration", "commit-configuration", "close-configuration", "close-session"];

/// C01: after a successful run.
pub fn oracle_c01(w: &World, obs: &RunObs) -> Result<(), (String, String)> {
    if obs.result.is_err() {
        return Ok(());
    }
    let exp = expectations(w);
    for (name, e) in &exp {
        match e {
            Expect::Target(v4, v6) => {
                let Some((_, p)) = obs.after.iter().find(|(n, _)| n == name) else {
                    let similar: Vec<&String> = obs.after.iter().map(|(n, _)| n).collect();
                    return Err(("managed-policy-not-installed".into(), format!("policy {name:?} is managed and evaluable but absent from the committed ephemeral configuration (present: {similar:?})")));
                };
                match accept_sets(p) {
                    Ok((a4, a6)) => {
                        if &a4 != v4 || &a6 != v6 {
                            let miss: Vec<_> = v4.difference(&a4).chain(v6.difference(&a6)).take(4).collect();
                            let extra: Vec<_> = a4.difference(v4).chain(a6.difference(v6)).take(4).collect();
                            return Err(("installed-set-differs".into(), format!("policy {name:?}: installed accept-set differs from the evaluated set; missing {miss:?}, extra {extra:?}")));
                        }
                    }
                    Err(why) => return Err(("installed-policy-malformed".into(), format!("policy {name:?}: {why}"))),
                }
                if p.then != ["reject"] {
                    return Err(("installed-policy-without-final-reject".into(), format!("policy {name:?} ends with {:?}", p.then)));
                }
            }
            Expect::Unobtainable(_) => {}
        }
    }
    let managed_names: BTreeSet<&String> = w.policies.iter().filter(|p| marked(p)).map(|p| &p.name).collect();
    for (n, _) in &obs.after {
        if !managed_names.contains(n) {
            return Err(("stale-policy-not-removed".into(), format!("committed ephemeral configuration contains policy {n:?}, which is not marked as managed in the running configuration (managed: {managed_names:?})")));
        }
    }
    // read-back through the agent's own reader
    let doc = data_doc(&render_ephemeral(&obs.after));
    match agent::verif::read_installed(&doc) {
        Ok(read) => {
            let mut got: BTreeMap<String, (BTreeSet<Range>, BTreeSet<Range>)> = BTreeMap::new();
            for (n, v4, v6) in read {
                let a = v4.iter().filter_map(|r| parse_range(r)).collect();
                let b = v6.iter().filter_map(|r| parse_range(r)).collect();
                got.insert(n, (a, b));
            }
            for (n, p) in &obs.after {
                let want = accept_sets(p).unwrap_or_default();
                // names are compared after XML unescaping on the model side only: the reader must give the real name
                match got.get(n) {
                    Some(g) if *g == want => {}
                    Some(g) => return Err(("read-back-differs".into(), format!("policy {n:?}: the agent's reader sees {g:?}, the router holds {want:?}"))),
                    None => return Err(("read-back-differs".into(), format!("policy {n:?} is installed but the agent's reader does not return it (returns {:?})", got.keys().collect::<Vec<_>>()))),
                }
            }
        }
        Err(e) => return Err(("installed-state-unreadable".into(), format!("the state the agent installed cannot be read back by the agent's own reader: {e}; state: {}", render_ephemeral(&obs.after).chars().take(600).collect::<String>()))),
    }
    Ok(())
}

/// C02: every single load, whether or not the run succeeded.
pub fn oracle_c02(w: &World, obs: &RunObs) -> Result<(), (String, String)> {
    let exp = expectations(w);
    for (si, s) in obs.sessions.iter().enumerate() {
        for r in s {
            if !ALLOWED_OPS.contains(&r.op.as_str()) {
                return Err(("unexpected-operation".into(), format!("the agent sent <{}>", r.op)));
            }
            if let Some(c) = &r.server_complaint {
                if r.op != "load-configuration" || !c.starts_with("load-configuration without an open") {
                    return Err(("request-outside-own-instance".into(), format!("<{}>: {c}", r.op)));
                }
            }
            if r.op == "load-configuration" {
                for p in &r.paths {
                    let ok = "load-configuration/configuration/policy-options/policy-statement".starts_with(p.as_str()) || p.starts_with("load-configuration/configuration/policy-options/policy-statement/");
                    if !ok {
                        return Err(("write-outside-policy-statements".into(), format!("load payload contains element path {p}")));
                    }
                }
                let Some((name, is_delete)) = &r.policy else { continue };
                if *is_delete || !r.applied {
                    continue;
                }
                let Some(db) = &r.working_after else { continue };
                let Some((_, p)) = db.iter().find(|(n, _)| n == name) else { continue };
                let sets = match accept_sets(p) {
                    Ok(s) => s,
                    Err(why) => return Err(("fail-open-term".into(), format!("after load of policy {name:?}: {why}"))),
                };
                if p.then != ["reject"] {
                    return Err(("no-final-reject".into(), format!("after load of policy {name:?} the policy ends with {:?}", p.then)));
                }
                // names are compared as the router sees them; a mis-escaped name has no expectation and is C01's business
                if let Some(Expect::Target(v4, v6)) = exp.get(name) {
                    let extra: Vec<_> = sets.0.difference(v4).chain(sets.1.difference(v6)).take(4).collect();
                    if !extra.is_empty() {
                        return Err(("accepts-outside-evaluated-set".into(), format!("after load of policy {name:?} it accepts {extra:?}, which are not in the evaluated set")));
                    }
                }
            }
        }
        if let Some(Some(inst)) = obs.opened.get(si) {
            if *inst != w.instance {
                return Err(("wrong-ephemeral-instance".into(), format!("opened {inst:?}, configured {:?}", w.instance)));
            }
        }
    }
    // what this run COMMITTED: every policy it sent a load for (acknowledged or not - a router merges
    // what it can of a refused payload) must be closed in the committed configuration
    let committed_now = obs.sessions.iter().flatten().any(|r| r.op == "commit-configuration" && r.applied);
    if committed_now {
        let touched: BTreeSet<&String> = obs.sessions.iter().flatten().filter(|r| r.op == "load-configuration").filter_map(|r| r.policy.as_ref()).filter(|(_, del)| !*del).map(|(n, _)| n).collect();
        for (name, p) in obs.after.iter().filter(|(n, _)| touched.contains(n)) {
            let sets = match accept_sets(p) {
                Ok(s) => s,
                Err(why) => return Err(("fail-open-term/committed".into(), format!("the committed policy {name:?}: {why}"))),
            };
            if p.then != ["reject"] {
                return Err(("no-final-reject/committed".into(), format!("the committed policy {name:?} ends with {:?}", p.then)));
            }
            if let Some(Expect::Target(v4, v6)) = exp.get(name) {
                let extra: Vec<_> = sets.0.difference(v4).chain(sets.1.difference(v6)).take(4).collect();
                if !extra.is_empty() {
                    return Err(("accepts-outside-evaluated-set/committed".into(), format!("the committed policy {name:?} accepts {extra:?}, which are not in the evaluated set")));
                }
            }
        }
    }
    Ok(())
}

/// C03: marked policies whose data is unobtainable are neither updated nor deleted.
/// Returns every violation found (so that a known finding does not hide another one).
pub fn oracle_c03_all(w: &World, obs: &RunObs) -> Vec<(String, String)> {
    let mut out = Vec::new();
    let exp = expectations(w);
    // managed = marked AND consisting of the default reject only (C16): an annotated statement with
    // other content is not managed, and an installed policy of that name is rightly removed
    let marked_names: BTreeSet<&String> = w.policies.iter().filter(|p| marked(p) && p.body == Body::DefaultReject).map(|p| &p.name).collect();
    let cause_of = |name: &String| -> Option<&'static str> {
        match exp.get(name) {
            Some(Expect::Target(..)) => None,
            Some(Expect::Unobtainable(why)) => {
                if why.starts_with("parse:") {
                    Some("annotation-unparseable")
                } else if why.contains("unevaluable") {
                    Some("unevaluable-construct")
                } else if why.contains("does not exist") {
                    Some("as-set-unknown")
                } else if why.contains("(io)") {
                    Some("irr-connection-lost")
                } else {
                    Some("irr-error-response")
                }
            }
            None => None,
        }
    };
    for p in w.policies.iter().filter(|p| marked(p)) {
        let Some(cause) = cause_of(&p.name) else { continue };
        let mut named = false;
        for r in obs.sessions.iter().flatten() {
            if let Some((name, is_delete)) = &r.policy {
                if *name == p.name {
                    named = true;
                    let what = if *is_delete { "delete" } else { "update" };
                    out.push((format!("{what}-sent-for-managed-policy/cause={cause}"), format!("policy {:?} is still marked as managed ({:?}) but a {what} was sent for it", p.name, p.comment)));
                }
            }
        }
        let b = obs.before.iter().find(|(n, _)| *n == p.name);
        let a = obs.after.iter().find(|(n, _)| *n == p.name);
        if a != b && !named {
            out.push((format!("managed-policy-changed/cause={cause}"), format!("policy {:?}: installed state changed although its data was unobtainable", p.name)));
        }
    }
    for r in obs.sessions.iter().flatten() {
        if let Some((name, true)) = &r.policy {
            if marked_names.contains(name) && cause_of(name).is_none() {
                out.push(("delete-sent-for-managed-policy/cause=none".into(), format!("a delete was sent for {name:?}, which is still marked as managed and evaluable")));
            }
        }
    }
    out
}

pub fn oracle_c03(w: &World, obs: &RunObs) -> Result<(), (String, String)> {
    let all = oracle_c03_all(w, obs);
    let known = known_classes("C03");
    match all.iter().find(|(c, _)| !known.contains(c)).or_else(|| all.first()) {
        Some(v) => Err(v.clone()),
        None => Ok(()),
    }
}

fn known_classes(prop: &str) -> BTreeSet<String> {
    static KNOWN: std::sync::OnceLock<Vec<crate::driver::Known>> = std::sync::OnceLock::new();
    KNOWN.get_or_init(crate::driver::load_known).iter().filter(|k| k.property == prop && k.status == "known").map(|k| k.class.clone()).collect()
}

/// C04: ordering of commit relative to acknowledgements; failure propagation.
pub fn oracle_c04(obs: &RunObs) -> Result<(), (String, String)> {
    let mut any_fault = false;
    for s in &obs.sessions {
        let mut opened_ok = false;
        let mut fault_seen = false;
        for (k, r) in s.iter().enumerate() {
            let positive = matches!(r.reply, ReplyKind::Positive | ReplyKind::PositiveWithWarning);
            if r.op == "commit-configuration" {
                let ops: Vec<&str> = s[..=k].iter().map(|x| x.op.as_str()).collect();
                if !opened_ok {
                    return Err(("commit-without-open-database".into(), format!("commit-configuration sent although open-configuration was not positively acknowledged; requests {ops:?}")));
                }
                if fault_seen {
                    return Err(("commit-after-failed-step".into(), format!("commit-configuration sent after a failed step; requests {ops:?}; faults {:?}", s[..k].iter().filter(|x| !matches!(x.reply, ReplyKind::Positive | ReplyKind::PositiveWithWarning)).map(|x| (x.op.as_str(), x.fault, x.reply.clone())).collect::<Vec<_>>())));
                }
                for (j, l) in s[..k].iter().enumerate() {
                    if l.op == "load-configuration" || l.op == "open-configuration" {
                        let lp = matches!(l.reply, ReplyKind::Positive | ReplyKind::PositiveWithWarning);
                        if !lp {
                            return Err(("commit-after-failed-step".into(), format!("commit-configuration sent although request #{j} <{}> was answered {:?}", l.op, l.reply)));
                        }
                    }
                }
                if !r.all_earlier_acked {
                    return Err(("commit-before-acknowledgement".into(), format!("commit-configuration arrived while an earlier reply of the session had not yet been received by the client; requests {ops:?}")));
                }
            }
            if r.op == "open-configuration" && positive {
                opened_ok = true;
            }
            if !positive {
                fault_seen = true;
                any_fault = true;
            }
        }
    }
    match &obs.result {
        Ok(()) => {
            if any_fault {
                return Err(("success-despite-failed-step".into(), format!("the run reported success although a step failed: {:?}", obs.sessions.iter().flatten().filter(|x| !matches!(x.reply, ReplyKind::Positive | ReplyKind::PositiveWithWarning)).map(|x| (x.op.as_str(), x.fault, x.reply.clone())).collect::<Vec<_>>())));
            }
            let s = obs.sessions.last().map(Vec::as_slice).unwrap_or(&[]);
            for needed in ["commit-configuration", "close-configuration", "close-session"] {
                let ok = s.iter().any(|r| r.op == needed && matches!(r.reply, ReplyKind::Positive | ReplyKind::PositiveWithWarning) && r.delivered);
                if !ok {
                    return Err(("success-without-acknowledged-step".into(), format!("the run reported success but <{needed}> was not positively acknowledged; requests {:?}", s.iter().map(|r| (r.op.as_str(), r.reply.clone(), r.delivered)).collect::<Vec<_>>())));
                }
            }
        }
        Err(_) => {}
    }
    Ok(())
}

/// C15: unevaluable members affect only themselves.
pub fn oracle_c15(w: &World, obs: &RunObs) -> Result<(), (String, String)> {
    let exp = expectations(w);
    let unevaluable: Vec<&String> = exp.iter().filter(|(_, e)| matches!(e, Expect::Unobtainable(_))).map(|(n, _)| n).collect();
    if unevaluable.is_empty() {
        return Ok(());
    }
    let kinds: BTreeSet<String> = exp
        .values()
        .filter_map(|e| match e {
            Expect::Unobtainable(w) if w.contains("unevaluable") => Some("unsupported-construct".to_string()),
            Expect::Unobtainable(w) if w.starts_with("parse:") => None,
            Expect::Unobtainable(w) if w.contains("does not exist") => Some("unknown-set".to_string()),
            Expect::Unobtainable(_) => Some("irr-error".to_string()),
            _ => None,
        })
        .collect();
    if kinds.is_empty() {
        return Ok(());
    }
    let kinds = kinds.into_iter().collect::<Vec<_>>().join("+");
    if let Err(e) = &obs.result {
        return Err((format!("run-aborted/{kinds}"), format!("policies {unevaluable:?} cannot be evaluated and the whole run failed: {e}")));
    }
    // the removal of a policy that is no longer marked as managed is an update of "the others" too
    let managed_names: BTreeSet<&String> = w.policies.iter().filter(|p| marked(p)).map(|p| &p.name).collect();
    for (n, _) in &obs.after {
        if !managed_names.contains(n) {
            return Err((format!("stale-policy-not-removed/{kinds}"), format!("policy {n:?} is installed and no longer marked as managed, but it survived a successful run next to unevaluable {unevaluable:?}")));
        }
    }
    for (name, e) in &exp {
        if let Expect::Target(v4, v6) = e {
            let got = obs.after.iter().find(|(n, _)| n == name).map(|(_, p)| accept_sets(p));
            match got {
                Some(Ok((a4, a6))) if &a4 == v4 && &a6 == v6 => {}
                other => return Err((format!("other-policy-not-updated/{kinds}"), format!("policy {name:?} is evaluable but was not brought to its evaluated set next to unevaluable {unevaluable:?}: {other:?}"))),
            }
        } else {
            let b = obs.before.iter().find(|(n, _)| n == name);
            let a = obs.after.iter().find(|(n, _)| n == name);
            if a != b {
                return Err((format!("unevaluable-policy-touched/{kinds}"), format!("policy {name:?} cannot be evaluated but its installed state changed")));
            }
        }
    }
    Ok(())
}

// ---------------------------------------------------------------------------------------------
// scenario
// ---------------------------------------------------------------------------------------------

const FAULTS: [FaultKind; 15] = [
    FaultKind::WarningAndError,
    FaultKind::LoadPartial,
    FaultKind::EmptyBody,
    FaultKind::RpcError,
    FaultKind::LoadErrorInResults,
    FaultKind::LoadErrorThenOk,
    FaultKind::OkThenError,
    FaultKind::Malformed,
    FaultKind::Truncated,
    FaultKind::UnknownId,
    FaultKind::OtherOutstandingId,
    FaultKind::Duplicate,
    FaultKind::CloseBeforeReply,
    FaultKind::CloseAfterReply,
    FaultKind::WarningThenOk,
];

pub(crate) fn history(ctx: &mut Ctx, focus: Focus) -> Verdict {
    crate::ssim::quiet_panics();
    let rt_seed = ctx.pick(1 << 30) as u64;
    let hist = History { rt: runtime(rt_seed) };
    let mut w = gen_world(ctx, focus);
    let max_runs = if ctx.tier == Tier::Thorough { 6 } else { 4 };
    let runs = match focus {
        Focus::C04 => 1 + ctx.pick(2),
        _ => 1 + ctx.pick(max_runs),
    };
    let mut junos = Junos::default();
    junos.instances.insert(w.instance.clone(), Vec::new());
    junos.dup_xmlns = ctx.pick(2) == 1;
    let mut last_ok = false;
    let mut sim_ns = 0u64;
    for k in 0..runs {
        if k > 0 {
            mutate_world(ctx, &mut w, focus);
        }
        ev!(ctx, "--- run {k}: policies {:?}", w.policies.iter().map(|p| (p.name.as_str(), p.comment.as_deref(), p.active)).collect::<Vec<_>>());
        // faults of this run
        let first_session = junos.sessions.len();
        junos.faults.clear();
        let mut irr_refuse = false;
        let fault_runs = match focus {
            Focus::C04 => true,
            Focus::C02 => ctx.chance(1, 3),
            // "when a run reports success ..." must also hold for runs that met a fault
            Focus::C01 => ctx.chance(1, 4),
            Focus::C03 => {
                irr_refuse = ctx.chance(1, 12);
                false
            }
            _ => false,
        };
        if fault_runs {
            let n_loads = expectations(&w).len();
            let n_req = 3 + n_loads + 3;
            let nf = if focus == Focus::C04 { 1 + ctx.tape.weighted(&[6, 2]) } else { 1 };
            for _ in 0..nf {
                let pos = ctx.pick(n_req);
                let kind = FAULTS[ctx.pick(FAULTS.len())];
                junos.faults.push((first_session, pos, kind));
                ev!(ctx, "fault planned: request #{pos} {kind:?}");
            }
        }
        sanitize_for_io_fault(ctx, &mut w);
        // C01: one fault-free run in 60 is made by the agent executable (end to end: argument parsing,
        // PEM files, real TLS, real TCP to the IRRd, process exit status)
        let by_executable = matches!(focus, Focus::C01 | Focus::C15) && !fault_runs && ctx.chance(1, 60);
        let (obs, j2) = if by_executable { agent_run_executable(ctx, &w, junos) } else { agent_run(ctx, &hist, &w, junos, irr_refuse) };
        if let Err(e) = &obs.result {
            if e.starts_with("harness:") {
                return Verdict::violation("harness-error", e.clone());
            }
        }
        junos = j2;
        for s in &obs.sessions {
            for r in s {
                if let Some(f) = r.fault {
                    ctx.count(&format!("fault.netconf_{f:?}_on_{}", r.op));
                }
            }
            sim_ns = sim_ns.max(s.last().map_or(0, |r| r.at_ns));
        }
        let loads = obs.sessions.iter().flatten().filter(|r| r.op == "load-configuration").count();
        if loads >= 2 {
            ctx.count("probe.pipelined_loads");
        }
        if obs.before.iter().any(|(_, p)| p.terms.len() == 2) && loads > 0 {
            ctx.count("probe.update_of_installed_policy");
        }
        ctx.count(if obs.result.is_ok() { "outcome.run_ok" } else { "outcome.run_failed" });
        ctx.nontrivial |= loads > 0;
        last_ok = obs.result.is_ok();
        let checks: Vec<(Focus, Result<(), (String, String)>)> = vec![
            (Focus::C01, oracle_c01(&w, &obs)),
            (Focus::C02, oracle_c02(&w, &obs)),
            (Focus::C03, oracle_c03(&w, &obs)),
            (Focus::C04, oracle_c04(&obs)),
            (Focus::C15, oracle_c15(&w, &obs)),
        ];
        for (f, r) in checks {
            if let Err((class, detail)) = r {
                if f == focus {
                    return Verdict::violation(class, format!("run {k}: {detail}"));
                }
                ctx.note(&format!("{f:?} oracle: {class}"));
            }
        }
        // a run that fails without any injected fault and with every policy evaluable is C01's business
        if focus == Focus::C01 && obs.result.is_err() && !irr_refuse && !fault_runs {
            let exp = expectations(&w);
            let blameless = exp.values().all(|e| matches!(e, Expect::Target(..)));
            if blameless {
                return Verdict::violation("fault-free-run-failed", format!("run {k} failed although nothing was injected and every policy is evaluable: {:?}", obs.result));
            }
            ctx.note("run failed with an unevaluable policy present (C15's business)");
        }
    }
    // idempotence: one more run with unchanged inputs
    if focus == Focus::C01 && last_ok {
        junos.faults.clear();
        let before = digest(&junos.instances.get(&w.instance).cloned().unwrap_or_default());
        ev!(ctx, "--- idempotence run");
        let (obs, j2) = agent_run(ctx, &hist, &w, junos, false);
        junos = j2;
        let after = digest(&junos.instances.get(&w.instance).cloned().unwrap_or_default());
        match obs.result {
            Ok(()) => {
                if before != after {
                    return Verdict::violation("not-idempotent", format!("a further run with unchanged inputs changed the configuration: {before:?} -> {after:?}"));
                }
            }
            Err(e) => {
                let exp = expectations(&w);
                if exp.values().all(|e| matches!(e, Expect::Target(..))) {
                    return Verdict::violation("next-run-fails", format!("after a successful run, a further run with unchanged inputs fails: {e}"));
                }
            }
        }
    }
    let _ = junos;
    ctx.sim_time_ns = sim_ns;
    Verdict::Pass
}

// ---------------------------------------------------------------------------------------------
// enumerated part of C01 / C02: every (installed, evaluated) pair of a small universe, for two
// policies at once, through the real reader -> compare -> update writer (plan facade), applied to
// the router model
// ---------------------------------------------------------------------------------------------

const U4: [&str; 2] = ["192.0.2.0/24,24,32", "198.51.100.0/24,24,24"];
const U6: [&str; 1] = ["2001:db8::/32,32,48"];
/// per policy: 10 installed states (absent, or present with one of 4 x 2 subsets ... plus "present, no terms")
/// x 10 evaluated states (not a candidate, evaluation failed, or one of 4 x 2 subsets)
pub const PLAN_CASES_PER_POLICY: u64 = 9 * 10;

fn subset(mask: u64) -> (Vec<String>, Vec<String>) {
    let v4 = U4.iter().enumerate().filter(|(i, _)| mask & (1 << i) != 0).map(|(_, s)| (*s).to_string()).collect();
    let v6 = if mask & 4 != 0 { vec![U6[0].to_string()] } else { Vec::new() };
    (v4, v6)
}

fn range_to_filter(r: &str) -> (String, String) {
    let mut it = r.split(',');
    let p = it.next().unwrap_or("").to_string();
    let lo = it.next().unwrap_or("0");
    let hi = it.next().unwrap_or("0");
    (p, format!("/{lo}-/{hi}"))
}

fn installed_policy(mask: u64) -> EphPolicy {
    let (v4, v6) = subset(mask);
    let mut p = EphPolicy { then: vec!["reject".into()], ..EphPolicy::default() };
    for (fam, rs) in [("inet", v4), ("inet6", v6)] {
        if !rs.is_empty() {
            p.terms.push(crate::asim::EphTerm { name: fam.into(), family: Some(fam.into()), filters: rs.iter().map(|r| range_to_filter(r)).collect(), then: vec!["accept".into()] });
        }
    }
    p
}

#[derive(Clone, Debug)]
struct PlanPolicy {
    name: String,
    /// None = absent
    installed: Option<u64>,
    /// None = not a candidate, Some(None) = evaluation failed, Some(Some(mask)) = evaluated set
    evaluated: Option<Option<u64>>,
}

fn decode_plan(i: u64, name: &str) -> PlanPolicy {
    let inst = i % 9; // 0 = absent, 1..=8 = subset mask 0..=7
    let eval = (i / 9) % 10; // 0 = not a candidate, 1 = failed, 2..=9 = subset mask 0..=7
    PlanPolicy {
        name: name.to_string(),
        installed: if inst == 0 { None } else { Some(inst - 1) },
        evaluated: match eval {
            0 => None,
            1 => Some(None),
            m => Some(Some(m - 2)),
        },
    }
}

fn sets_of(mask: u64) -> (BTreeSet<Range>, BTreeSet<Range>) {
    let (a, b) = subset(mask);
    (a.iter().filter_map(|r| parse_range(r)).collect(), b.iter().filter_map(|r| parse_range(r)).collect())
}

fn plan_case(ctx: &mut Ctx, index: u64, focus: Focus) -> Verdict {
    let names = ["fltr-a", "b&<c>"];
    let pols = [decode_plan(index % PLAN_CASES_PER_POLICY, names[0]), decode_plan(index / PLAN_CASES_PER_POLICY, names[1])];
    ev!(ctx, "plan case {:?}", pols);
    ctx.nontrivial = true;
    let mut db: EphDb = Vec::new();
    for p in &pols {
        if let Some(m) = p.installed {
            db.push((p.name.clone(), installed_policy(m)));
        }
    }
    let evaluated: Vec<agent::verif::EvaluatedInput> = pols
        .iter()
        .filter_map(|p| p.evaluated.map(|e| (p.name.clone(), "AS-FOO".to_string(), e.map(subset))))
        .collect();
    let before = db.clone();
    let updates = match agent::verif::plan(&data_doc(&render_ephemeral(&db)), &evaluated) {
        Ok(u) => u,
        Err(e) => return Verdict::violation("plan-failed", format!("the agent cannot plan from a state it can produce: {e}")),
    };
    ctx.count_n("probe.updates_planned", updates.len() as u64);
    for u in &updates {
        ev!(ctx, "update {}", u.split("junos:comment").next().unwrap_or(u).chars().take(120).collect::<String>());
        let doc = match crate::xml::parse_lenient_ns(u) {
            Ok(d) => d,
            Err(e) => return Verdict::violation("update-not-well-formed", format!("{e}: {u}")),
        };
        // C02: each update on its own, applied to the fetched state
        let mut alone = before.clone();
        if let Err(e) = crate::asim::apply_load(&mut alone, &doc.root) {
            return Verdict::violation("update-rejected-by-router-model", format!("{e}: {u}"));
        }
        if focus == Focus::C02 {
            let name = doc.root.child("policy-options").and_then(|p| p.child("policy-statement")).and_then(|p| p.child("name")).map(crate::xml::Elem::text).unwrap_or_default();
            if let Some((_, p)) = alone.iter().find(|(n, _)| *n == name) {
                let want = pols.iter().find(|q| q.name == name).and_then(|q| q.evaluated).flatten().map(sets_of);
                match accept_sets(p) {
                    Err(why) => return Verdict::violation("fail-open-term", format!("update for {name:?} alone: {why}")),
                    Ok((a4, a6)) => {
                        if let Some((w4, w6)) = want {
                            if !a4.is_subset(&w4) || !a6.is_subset(&w6) {
                                return Verdict::violation("accepts-outside-evaluated-set", format!("update for {name:?} alone yields {a4:?} {a6:?}, evaluated {w4:?} {w6:?}"));
                            }
                        }
                    }
                }
                if p.then != ["reject"] {
                    return Verdict::violation("no-final-reject", format!("update for {name:?} alone: policy ends with {:?}", p.then));
                }
            }
            let mut paths = Vec::new();
            doc.root.paths("", &mut paths);
            if let Some(bad) = paths.iter().find(|p| !("configuration/policy-options/policy-statement".starts_with(p.as_str()) || p.starts_with("configuration/policy-options/policy-statement/"))) {
                return Verdict::violation("write-outside-policy-statements", format!("element path {bad}"));
            }
        }
        // cumulative application = what the router holds after the run
        if let Err(e) = crate::asim::apply_load(&mut db, &doc.root) {
            return Verdict::violation("update-rejected-by-router-model", format!("{e}: {u}"));
        }
    }
    if focus == Focus::C02 {
        return Verdict::Pass;
    }
    // C01: convergence, no stale policy, untouched on failure, read-back, idempotence
    for p in &pols {
        let now = db.iter().find(|(n, _)| *n == p.name).map(|(_, q)| q);
        let was = before.iter().find(|(n, _)| *n == p.name).map(|(_, q)| q);
        match p.evaluated {
            None => {
                if now.is_some() {
                    return Verdict::violation("stale-policy-not-removed", format!("{:?} is installed, not a candidate, and still installed after the planned updates", p.name));
                }
            }
            Some(None) => {
                if now != was {
                    return Verdict::violation("failed-evaluation-touched", format!("{:?}: evaluation failed but the installed state changed", p.name));
                }
            }
            Some(Some(m)) => {
                let Some(q) = now else {
                    return Verdict::violation("managed-policy-not-installed", format!("{:?} evaluated to {:?} but is absent after the planned updates", p.name, subset(m)));
                };
                match accept_sets(q) {
                    Ok(got) if got == sets_of(m) && q.then == ["reject"] => {}
                    other => return Verdict::violation("installed-set-differs", format!("{:?}: installed {:?} (then {:?}), evaluated {:?}, previously installed {:?}", p.name, other, q.then, sets_of(m), p.installed.map(subset))),
                }
            }
        }
    }
    let doc2 = data_doc(&render_ephemeral(&db));
    match agent::verif::read_installed(&doc2) {
        Ok(read) => {
            for (n, q) in &db {
                let want = accept_sets(q).unwrap_or_default();
                let got = read.iter().find(|(m, _, _)| m == n).map(|(_, a, b)| (a.iter().filter_map(|r| parse_range(r)).collect::<BTreeSet<_>>(), b.iter().filter_map(|r| parse_range(r)).collect::<BTreeSet<_>>()));
                if got.as_ref() != Some(&want) {
                    return Verdict::violation("read-back-differs", format!("{n:?}: reader sees {got:?}, router holds {want:?}"));
                }
            }
        }
        Err(e) => return Verdict::violation("installed-state-unreadable", format!("{e}; state {}", render_ephemeral(&db))),
    }
    match agent::verif::plan(&doc2, &evaluated) {
        Ok(again) => {
            let mut db2 = db.clone();
            for u in &again {
                if let Ok(d) = crate::xml::parse_lenient_ns(u) {
                    let _ = crate::asim::apply_load(&mut db2, &d.root);
                }
            }
            if digest(&db2) != digest(&db) {
                return Verdict::violation("not-idempotent", format!("a second plan with unchanged inputs changes the configuration: {:?} -> {:?}", digest(&db), digest(&db2)));
            }
        }
        Err(e) => return Verdict::violation("next-run-fails", format!("planning again from the state just produced fails: {e}")),
    }
    Verdict::Pass
}

fn run_c01(ctx: &mut Ctx) -> Verdict {
    match ctx.enum_index {
        Some(i) => plan_case(ctx, i, Focus::C01),
        None => history(ctx, Focus::C01),
    }
}
fn run_c02(ctx: &mut Ctx) -> Verdict {
    match ctx.enum_index {
        Some(i) => plan_case(ctx, i, Focus::C02),
        None => history(ctx, Focus::C02),
    }
}
fn run_c03(ctx: &mut Ctx) -> Verdict {
    history(ctx, Focus::C03)
}
fn run_c04(ctx: &mut Ctx) -> Verdict {
    history(ctx, Focus::C04)
}
fn run_c15(ctx: &mut Ctx) -> Verdict {
    history(ctx, Focus::C15)
}

const COMPONENTS: &[(&str, &str)] = &[
    ("junos-agent task.rs (Updater::run), netconf/mod.rs (client typestate), policies/{fetch,eval,compare,load}.rs", "real"),
    ("netconf session layer, messages, builders, readers", "real"),
    ("bgpfu-lib query.rs, rpsl, irrc pipeline + parser", "real"),
    ("tokio runtime, timers", "real (current_thread, paused clock, seeded); in half of the runs tokio::spawn as seen by the agent delays the first poll of the new task by a seeded 0-3 virtual ms (shim/tokio)"),
    ("netconf transport", "stub: in-memory with seeded virtual delays per send and per reply"),
    ("irrc TCP socket", "stub: in-memory, synchronous, seeded short reads"),
    ("tokio::task::block_in_place", "stub: direct call (tokio shim)"),
    ("router", "model: FakeJunos (running config, named ephemeral instances with per-session working copy, merge/delete semantics, Junos get-config dialect)"),
    ("IRRd", "model: FakeIrrd"),
];

const COMPONENTS_C01: &[(&str, &str)] = &[
    ("junos-agent task.rs (Updater::run), netconf/mod.rs (client typestate), policies/{fetch,eval,compare,load}.rs", "real"),
    ("netconf session layer, messages, builders, readers", "real"),
    ("bgpfu-lib query.rs, rpsl, irrc pipeline + parser", "real"),
    ("tokio runtime, timers", "real (current_thread, paused clock, seeded); executable runs: real multi-thread runtime, real clock"),
    ("netconf transport", "stub: in-memory with seeded virtual delays per send and per reply; executable runs: the real TLS transport over loopback"),
    ("irrc TCP socket", "stub: in-memory, synchronous, seeded short reads; executable runs: real loopback TCP"),
    ("tokio::task::block_in_place", "stub: direct call (tokio shim)"),
    ("agent executable: bin/bgpfu-junos-agent.rs, cli.rs (argument parsing, Remote target, logging set-up), netconf/pem.rs", "real, one fault-free run in 60: target/release/agentbin as a child process"),
    ("router", "model: FakeJunos (running config with other sections, subtree filter, named ephemeral instances with per-session working copy, merge/delete semantics, Junos get-config dialect); executable runs: the same model behind a tokio-rustls listener"),
    ("IRRd", "model: FakeIrrd (in-memory, or served on a loopback TCP socket)"),
];

const ASSUMPTIONS: &[&str] = &[
    "FakeJunos follows Juniper's documentation of load-configuration (merge, delete=\"delete\", list keys) and of the ephemeral-database workflow, and the reply shapes in the repository's own fixtures; no router is available",
    "an element that carries only its list key (e.g. <term><name>inet6</name></term>) creates an empty container, as `set ... term inet6` does",
    "deleting a statement that does not exist yields a warning followed by <ok/>",
    "an empty ephemeral database is rendered as <configuration ...></configuration>",
    "the reference target is rpsl's evaluator over a resolver reading the IRR database directly (see C11)",
    "executable runs (C01 only) use the real clock and the child's own hash seeds: only the exit status, the resulting router state and the sorted list of operations enter the verdict and the event log; a process still running after 40 s is a harness error",
];

macro_rules! agent_spec {
    ($name:ident, $id:literal, $run:ident, $level:literal, $quick:expr, $thorough:expr, $enumerated:expr, $rule:literal) => {
        agent_spec!($name, $id, $run, $level, $quick, $thorough, $enumerated, $rule, COMPONENTS);
    };
    ($name:ident, $id:literal, $run:ident, $level:literal, $quick:expr, $thorough:expr, $enumerated:expr, $rule:literal, $components:ident) => {
        pub static $name: PropSpec = PropSpec {
            id: $id,
            simulator: "A-sim",
            level: $level,
            runs: |t| if t == Tier::Thorough { $thorough } else { $quick },
            enumerated: |_| $enumerated,
            run: $run,
            rule: $rule,
            components: $components,
            assumptions: ASSUMPTIONS,
            watchdog_s: 60,
            stuck_is_verdict: false,
            serial: false,
        };
    };
}

agent_spec!(C01, "C01", run_c01, "exploration", 20_000, 500_000, PLAN_CASES_PER_POLICY * PLAN_CASES_PER_POLICY,
    "enumerated (8100 cases): for two policies at once (one with XML metacharacters in its name), every pair of {absent, installed with any subset of a 2+1 range universe} x {not a candidate, evaluation failed, evaluated to any subset} through the real reader -> compare -> update writer, applied to the router model: convergence, no stale policy, untouched on failure, read-back, idempotence. seeded: a history of 1-4 (thorough: 1-6) consecutive real agent runs against one FakeJunos + FakeIrrd, starting from an empty ephemeral instance; between runs the world mutates (routes appear/disappear, a family of an AS vanishes, set membership changes, policies lose the annotation / are deactivated / removed / renamed / get a new expression / are added); policy names occasionally contain XML metacharacters, quotes and non-ASCII; seeded virtual delays on every send and reply, seeded hash order, seeded IRR read segmentation; one run in four meets a NETCONF fault at a seeded request position (it may fail, but if it reports success it must have converged); one fault-free run in 60 is made end to end by the agent executable (child process in one-shot mode with the options a user would give: --ephemeral-db, --irrd-host/port, remote --netconf-host/port, certificate paths, --tls-server-name) against FakeJunos behind a real TLS listener and FakeIrrd on a loopback TCP socket - its exit status is the run's result. After every successful run: committed accept-set per family == reference set, final reject, no stale policy, read-back through the agent's own reader; finally one more run with unchanged inputs must succeed and change nothing. Non-trivial = at least one load-configuration was sent; distinct = distinct event-log hash", COMPONENTS_C01);
agent_spec!(C02, "C02", run_c02, "exploration", 20_000, 1_000_000, PLAN_CASES_PER_POLICY * PLAN_CASES_PER_POLICY,
    "enumerated: the 8100 (installed, evaluated) cases of C01, each planned update applied on its own to the fetched state. seeded: the C01 histories, one run in three with a NETCONF fault injected at a seeded request position (so that runs abort after any prefix of the update sequence); the oracle is evaluated on the model's working copy after every single load-configuration: every accepting term is restricted to inet or inet6, has at least one route-filter, all its route-filters belong to the reference set of that family, the policy ends in reject; element paths of every payload stay below configuration/policy-options/policy-statement; only the six expected operations are used and exactly the configured ephemeral instance is opened; whatever a run commits must be closed for every policy it sent a load for, also when the router had refused a load and merged part of it");
agent_spec!(C03, "C03", run_c03, "fault_enumeration", 20_000, 1_000_000, 0,
    "histories biased towards managed policies whose data is unobtainable: unknown as-set, error response (F / E / D) to the as-set members query, IRRd refusing the connection, annotations with the bgpfu-fltr prefix that do not parse, expressions using constructs the evaluator does not support (PeerAS, AS-path regular expressions, attribute matches); installed state present or absent, mutations make annotations unparseable between runs. Oracle: no update or delete names such a policy and its installed state is unchanged; deletes name only policies that are not marked as managed");
agent_spec!(C04, "C04", run_c04, "fault_enumeration", 20_000, 1_000_000, 0,
    "1-2 runs per history with 1-2 faults at seeded positions of the request sequence open -> get-config x2 -> load x N -> commit -> close-configuration -> close-session; fault kinds: rpc-error, a warning next to an error (either order), error inside load-configuration-results, error followed by <ok/>, the positive indication followed by an error, a reply without any content (no acknowledgement), a load that is refused but partially merged by the router, malformed reply, truncated reply, unknown message-id, another outstanding request's message-id, duplicated reply, close before the reply, close after the reply, and (non-fault) warning followed by <ok/>; reply delays let a failing load reply arrive after later loads were sent. Oracle on the per-session request log: commit only after open and every load were positively acknowledged and delivered, never after a failed step; fault => run fails; success => commit, close-configuration and close-session acknowledged. FakeJunos applies requests made without an open database to the shared candidate configuration (as Junos does), so that a run which ignores a refused open-configuration is seen loading and committing");
agent_spec!(C15, "C15", run_c15, "exploration", 20_000, 1_000_000, 0,
    "1-5 (thorough: 1-10) managed policies of which some are unevaluable (one world in eight additionally has a policy over a 70-100 member as-set on an IRR mirror that answers every route6 query with an error, i.e. dozens of sunk errors within one evaluation): unknown as-set, IRR error response, PeerAS, AS-path regular expression, community match; all hash orders; one run in 60 is made end to end by the agent executable (its own main(), i.e. with whatever process-wide hooks it installs). Oracle: the run succeeds, every evaluable policy reaches its reference set and is committed, the unevaluable ones are untouched, and a policy that is installed but no longer marked as managed does not survive. The violation class names the kind of unevaluable member present", COMPONENTS_C01);
