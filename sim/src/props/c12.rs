//! C12: session establishment negotiates a version both peers can speak.
//!
//! Seeded part (S-sim): the hello matrix and both orders of the hello exchange.
//! Enumerated part (R-sim, real TLS transport): a conforming peer that switches to RFC 6242
//! chunked framing when both hellos advertise :base:1.1 — an established session must be usable.

use std::collections::BTreeSet;
use std::sync::{Arc, Mutex};

use netconf::message::rpc::operation::{Builder, Get};
use netconf::Session;

use crate::core::{Ctx, PropSpec, Tier, Verdict};
use crate::doc::{Rw, Ser, Style, E, NS};
use crate::ev;
use crate::ssim::{drive, reply, Quiescence, SchedCfg, Server, SimTransport, CAP_BASE10, CAP_BASE11, CAP_JUNOS, MARKER};

#[derive(Clone, Debug, PartialEq, Eq)]
enum Sid {
    Valid(u32),
    Zero,
    TooBig,
    Negative,
    Missing,
    Duplicated(u32),
    ZeroPadded(u32),
    NotANumber,
    Empty,
}

#[derive(Clone, Debug)]
struct Hello {
    caps: Vec<String>,
    sid: Sid,
    sid_first: bool,
    wrong_ns: bool,
    no_capabilities: bool,
    /// a second <capabilities> element (with another capability list) follows the first
    dup_capabilities: Option<Vec<String>>,
    /// an element named `capability` but in a foreign namespace inside <capabilities>, carrying this URI
    foreign_capability: Option<String>,
    prefix: bool,
    /// the hello starts with an XML declaration (as in every RFC 6242 example)
    decl: bool,
    server_waits: bool,
    client_send_stall: usize,
    /// the client's own hello meets a write error: Some(false) = nothing goes out, Some(true) = the
    /// bytes go out but the write reports an error. Either way the session must not come up.
    client_send_fault: Option<bool>,
}

const EXTRA_CAPS: [&str; 8] = [
    "urn:ietf:params:netconf:capability:candidate:1.0",
    "urn:ietf:params:netconf:capability:validate:1.1",
    "urn:ietf:params:netconf:capability:url:1.0?scheme=http,ftp,file",
    "urn:ietf:params:xml:ns:netconf:base:1.0?module=ietf-netconf&revision=2011-06-01",
    "urn:ietf:params:xml:ns:yang:ietf-netconf-monitoring",
    "http://xml.juniper.net/dmi/system/1.0",
    "http://yang.juniper.net/junos/jcmd?module=junos-configuration-metadata&revision=2021-09-01",
    "urn:ietf:params:netconf:base:2.0",
];

fn gen_hello(ctx: &mut Ctx) -> Hello {
    let mut caps = Vec::new();
    match ctx.tape.weighted(&[4, 2, 3, 1]) {
        0 => caps.push(CAP_BASE10.to_string()),
        1 => caps.push(CAP_BASE11.to_string()),
        2 => {
            caps.push(CAP_BASE10.to_string());
            caps.push(CAP_BASE11.to_string());
        }
        _ => {}
    }
    if ctx.pick(2) == 1 {
        caps.push(CAP_JUNOS.to_string());
    }
    for c in EXTRA_CAPS {
        if ctx.chance(1, 3) {
            caps.push(c.to_string());
        }
    }
    if ctx.pick(2) == 1 {
        caps.reverse();
    }
    let valid = |ctx: &mut Ctx| match ctx.pick(4) {
        0 => 1,
        1 => u32::MAX,
        _ => 2 + ctx.pick(1_000_000) as u32,
    };
    let sid = match ctx.tape.weighted(&[8, 1, 1, 1, 1, 1, 1, 1, 1]) {
        0 => Sid::Valid(valid(ctx)),
        1 => Sid::Zero,
        2 => Sid::TooBig,
        3 => Sid::Negative,
        4 => Sid::Missing,
        5 => Sid::Duplicated(valid(ctx)),
        6 => Sid::ZeroPadded(valid(ctx)),
        7 => Sid::NotANumber,
        _ => Sid::Empty,
    };
    let dup_capabilities = ctx.chance(1, 12).then(|| match ctx.pick(4) {
        0 => vec![CAP_BASE10.to_string()],
        1 => vec![CAP_BASE10.to_string(), CAP_BASE11.to_string(), CAP_JUNOS.to_string()],
        2 => vec![],
        _ => caps.clone(),
    });
    let foreign_capability = ctx.chance(1, 12).then(|| match ctx.pick(3) {
        0 => CAP_BASE10.to_string(),
        1 => CAP_BASE11.to_string(),
        _ => "urn:example:not-a-netconf-capability".to_string(),
    });
    Hello {
        caps,
        sid,
        sid_first: ctx.chance(1, 3),
        wrong_ns: ctx.chance(1, 16),
        no_capabilities: ctx.chance(1, 16),
        dup_capabilities,
        foreign_capability,
        prefix: ctx.pick(2) == 1,
        decl: ctx.pick(3) == 0,
        server_waits: ctx.pick(2) == 1,
        client_send_stall: ctx.pick(3),
        client_send_fault: ctx.chance(1, 16).then(|| ctx.pick(2) == 1),
    }
}

fn hello_bytes(h: &Hello) -> Vec<u8> {
    let ns: &'static str = if h.wrong_ns { "urn:ietf:params:xml:ns:netconf:base:1.1" } else { NS };
    let mut caps = E::new(ns, "capabilities");
    for c in &h.caps {
        caps.push(E::new(ns, "capability").tok(c));
    }
    if let Some(f) = &h.foreign_capability {
        caps.push(E::new("urn:example:vendor-extension", "capability").tok(f));
    }
    let sid_elems: Vec<E> = match &h.sid {
        Sid::Valid(n) => vec![E::new(ns, "session-id").tok(&n.to_string())],
        Sid::Zero => vec![E::new(ns, "session-id").tok("0")],
        Sid::TooBig => vec![E::new(ns, "session-id").tok("4294967296")],
        Sid::Negative => vec![E::new(ns, "session-id").tok("-5")],
        Sid::Missing => vec![],
        Sid::Duplicated(n) => vec![E::new(ns, "session-id").tok(&n.to_string()), E::new(ns, "session-id").tok(&n.to_string())],
        Sid::ZeroPadded(n) => vec![E::new(ns, "session-id").tok(&format!("00{n}"))],
        Sid::NotANumber => vec![E::new(ns, "session-id").tok("abc")],
        Sid::Empty => vec![E::new(ns, "session-id")],
    };
    let mut root = E::new(ns, "hello");
    if h.sid_first {
        root = root.kids(sid_elems.clone());
    }
    if !h.no_capabilities {
        root.push(caps);
        if let Some(second) = &h.dup_capabilities {
            let mut c2 = E::new(ns, "capabilities");
            for c in second {
                c2.push(E::new(ns, "capability").tok(c));
            }
            root.push(c2);
        }
    }
    if !h.sid_first {
        root = root.kids(sid_elems);
    }
    // site 0 is the XML declaration, site 1 the namespace decision of the root element
    let sites: Vec<usize> = [(h.decl, 0), (h.prefix, 1)].iter().filter(|(on, _)| *on).map(|(_, s)| *s).collect();
    let doc = if sites.is_empty() { Ser::new(Style::Canonical).document(&root) } else { Ser::new(Style::Only(sites)).document(&root) };
    debug_assert!(!h.prefix || doc.contains("<p0:hello"), "{doc}");
    debug_assert!(!h.decl || doc.starts_with("<?xml"), "{doc}");
    let _ = Rw::NsPrefix;
    format!("{doc}{MARKER}").into_bytes()
}

struct Fake {
    hello: Option<Vec<u8>>,
    client_caps: Arc<Mutex<Option<Vec<String>>>>,
}

impl Server for Fake {
    fn on_message(&mut self, msg: &str) -> Vec<Vec<u8>> {
        let Ok(doc) = crate::xml::parse(msg) else { return vec![] };
        if doc.root.local == "hello" {
            let caps = doc.root.child("capabilities").map(|c| c.children_named("capability").map(|e| e.text()).collect()).unwrap_or_default();
            *self.client_caps.lock().unwrap() = Some(caps);
            return self.hello.take().into_iter().collect();
        }
        let id = doc.root.attr("message-id").unwrap_or("0").to_string();
        vec![reply(&id, "<data><t xmlns=\"urn:x\">FIRST-RPC</t></data>")]
    }
}

fn run(ctx: &mut Ctx) -> Verdict {
    if let Some(i) = ctx.enum_index {
        return crate::props::c12_tls::run_enumerated(ctx, i);
    }
    let h = gen_hello(ctx);
    ev!(ctx, "hello {:?}", h);
    let bytes = hello_bytes(&h);
    ev!(ctx, "bytes {}", String::from_utf8_lossy(&bytes));
    let client_caps: Arc<Mutex<Option<Vec<String>>>> = Arc::default();
    let server = Fake { hello: h.server_waits.then(|| bytes.clone()), client_caps: client_caps.clone() };
    // (established?, reported session id, version, capability URIs, first rpc result)
    type Obs = (Result<(String, String, BTreeSet<String>), String>, Option<String>);
    let obs: Arc<Mutex<Option<Obs>>> = Arc::default();
    let obs2 = obs.clone();
    let stall = h.client_send_stall;
    let send_fault = h.client_send_fault;
    let (q, exec) = drive(
        ctx,
        Box::new(server),
        (!h.server_waits).then_some(bytes),
        SchedCfg { permute: true, spurious: 1, ..SchedCfg::default() },
        move |net, _| {
            Box::pin(async move {
                net.lock().unwrap().send_stalls.push_back(if send_fault.is_some() { 0 } else { stall });
                if let Some(after_bytes) = send_fault {
                    net.lock().unwrap().send_after.push_back(if after_bytes { usize::MAX } else { usize::MAX - 1 });
                }
                match Session::verif_new(SimTransport(net)).await {
                    Ok(mut s) => {
                        let c = s.context();
                        let est = (c.session_id().to_string(), c.protocol_version().to_string(), c.server_capabilities().iter().map(|c| c.uri().into_owned()).collect::<BTreeSet<_>>());
                        let first = match s.rpc::<Get, _>(|b| b.finish()).await {
                            Ok(f) => format!("{:?}", f.await),
                            Err(e) => format!("send failed: {e:?}"),
                        };
                        *obs2.lock().unwrap() = Some((Ok(est), Some(first)));
                    }
                    Err(e) => *obs2.lock().unwrap() = Some((Err(format!("{e:?}")), None)),
                }
            })
        },
    );
    if let Some((t, m)) = exec.panics.first() {
        return Verdict::violation("panic", format!("task {t} panicked: {m}"));
    }
    if q != Quiescence::Quiet(vec![]) {
        return Verdict::violation("hello-exchange-stuck", format!("{q:?} with hello {h:?}"));
    }
    let Some((est, first)) = obs.lock().unwrap().clone() else {
        return Verdict::violation("no-result", "establishment produced no result".to_string());
    };
    if let Some(after_bytes) = h.client_send_fault {
        ctx.count("fault.client_hello_write_error");
        ctx.nontrivial = true;
        return match est {
            Ok((sid, version, _)) => Verdict::violation(
                "established-despite/client-hello-send-failed",
                format!("session established (id {sid}, {version}) although writing the client's hello failed ({}); hello {h:?}", if after_bytes { "after the bytes went out" } else { "nothing went out" }),
            ),
            Err(_) => Verdict::Pass,
        };
    }
    let Some(client) = client_caps.lock().unwrap().clone() else {
        return Verdict::violation("client-hello-missing", "the server never received a parseable client hello".to_string());
    };
    // ---- oracle
    let sid_value = match &h.sid {
        Sid::Valid(n) | Sid::ZeroPadded(n) => Some(*n),
        _ => None,
    };
    let server_bases: BTreeSet<&str> = h.caps.iter().map(String::as_str).filter(|c| *c == CAP_BASE10 || *c == CAP_BASE11).collect();
    let client_bases: BTreeSet<&str> = client.iter().map(String::as_str).filter(|c| *c == CAP_BASE10 || *c == CAP_BASE11).collect();
    let common: Vec<&str> = server_bases.intersection(&client_bases).copied().collect();
    let well_formed = !h.wrong_ns && !h.no_capabilities && h.dup_capabilities.is_none();
    if h.dup_capabilities.is_some() && !h.no_capabilities {
        ctx.count("probe.hello_with_two_capabilities_elements");
    }
    let expect = well_formed && sid_value.is_some() && !common.is_empty();
    ctx.nontrivial = expect;
    ctx.count(if expect { "outcome.expected_established" } else { "outcome.expected_refused" });
    match est {
        Ok((sid, version, caps)) => {
            if !expect {
                let why = if !well_formed {
                    "malformed-hello"
                } else if sid_value.is_none() {
                    "invalid-session-id"
                } else {
                    "no-common-base-version"
                };
                return Verdict::violation(format!("established-despite/{why}"), format!("session established (id {sid}, {version}) on hello {h:?}; client advertised {client:?}"));
            }
            if Some(sid.as_str()) != sid_value.map(|n| n.to_string()).as_deref() {
                return Verdict::violation("wrong-session-id", format!("reported {sid}, hello carries {:?}", h.sid));
            }
            let highest = if common.contains(&CAP_BASE11) { ":base:1.1" } else { ":base:1.0" };
            if version != highest {
                return Verdict::violation("wrong-version", format!("negotiated {version}, highest common is {highest} (server {server_bases:?}, client {client_bases:?})"));
            }
            match first {
                Some(f) if f.contains("FIRST-RPC") && f.starts_with("Ok(") => {}
                other => return Verdict::violation("first-rpc-failed", format!("{other:?}")),
            }
            let want: BTreeSet<String> = h.caps.iter().cloned().collect();
            if caps != want {
                let unescaped: BTreeSet<String> = caps.iter().map(|c| c.replace("&amp;", "&")).collect();
                if unescaped == want {
                    return Verdict::violation(
                        "wrong-capabilities/uri-not-unescaped",
                        format!("a capability URI containing '&' is reported with the XML escape still in it: reported {caps:?}, hello carries {want:?}"),
                    );
                }
                return Verdict::violation("wrong-capabilities", format!("reported {caps:?}, hello carries {want:?}"));
            }
        }
        Err(_) if h.foreign_capability.is_some() => {
            // an element of another namespace inside <capabilities> is not a capability; refusing the
            // hello for it is as acceptable as ignoring it
            ctx.count("probe.hello_with_foreign_namespace_capability_element");
        }
        Err(e) => {
            if expect {
                return Verdict::violation("refused-valid-hello", format!("establishment failed with {e} on hello {h:?}; client advertised {client:?}"));
            }
        }
    }
    Verdict::Pass
}

pub static C12: PropSpec = PropSpec {
    id: "C12",
    simulator: "S-sim + R-sim(TLS)",
    level: "exploration",
    runs: |t| if t == Tier::Thorough { 20_000_000 } else { 150_000 },
    enumerated: |t| crate::props::c12_tls::count(t),
    run,
    rule: "seeded: server hellos from the matrix base {1.0, 1.1, both, neither} x other capabilities x session-id {valid incl. 1 and 2^32-1, 0, 2^32, negative, missing, duplicated, zero-padded, non-numeric, empty} x namespace prefix/default x with or without an XML declaration x element order x wrong namespace / missing <capabilities> / a second <capabilities> element with another list / an element named capability in a foreign namespace (it may be ignored or the hello refused, but it never counts as a capability); the hello is available before the client's hello is accepted, or the server waits for the client hello first; client send back-pressure, or a write error on the client's own hello (before or after the bytes went out: the session must then not come up, and establishment must not hang); permuted scheduling with spurious polls. enumerated: real TLS transport against a peer that uses RFC 6242 chunked framing when both hellos advertise :base:1.1. Non-trivial = the hello should establish a session; distinct = distinct event-log hash",
    components: &[
        ("netconf session.rs, hello.rs, capabilities.rs", "real"),
        ("transport", "seeded part: in-memory stub; enumerated part: real tls.rs over loopback TCP"),
        ("NETCONF server", "model: scripted hello; enumerated part: tokio-rustls acceptor speaking the framing RFC 6242 section 4.1 requires"),
    ],
    assumptions: &["a session-id with surrounding whitespace belongs to C13, not to this matrix"],
    watchdog_s: 30,
    stuck_is_verdict: false,
    serial: false,
};
