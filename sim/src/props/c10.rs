//! C10: serialised requests are well-formed, carry exactly one delimiter, and carry the caller's
//! values unchanged — S-sim. (The agent's payloads are covered through A-sim in C01/C02.)

use std::sync::{Arc, Mutex};

use netconf::message::rpc::operation::{
    junos::{
        load_configuration::{Config, Json, Merge, Override, Set, Text, Xml},
        CommitConfiguration, LoadConfiguration, OpenConfiguration,
    },
    edit_config::{DefaultOperation, ErrorOption, TestOption},
    Builder, CancelCommit, Commit, CopyConfig, Datastore, DeleteConfig, EditConfig, Filter, Get, GetConfig, Opaque, Token, Validate,
};
use netconf::{Error, Session};

use crate::core::{Ctx, PropSpec, Tier, Verdict};
use crate::doc::{Ser, Style, ALL_RW, E};
use crate::ev;
use crate::ssim::{drive, hello_with, reply, Quiescence, SchedCfg, Server, SimTransport, CAP_BASE10, CAP_JUNOS};
use crate::xml::Elem;

const PIECES: [&str; 24] = [
    "a", "xyz", " ", "<", ">", "&", "\"", "'", "]]>", "]]>]]>", "&amp;", "&lt;", "é", "日本語", "<!--", "-->", "<![CDATA[", "]]", "?>", "</rpc>", "<a>", "/", "=", "\u{1F600}",
];

pub fn gen_text(ctx: &mut Ctx, allow_ws_controls: bool) -> String {
    let n = ctx.tape.weighted(&[1, 3, 3, 3, 2, 2, 1]);
    let mut s = String::new();
    for _ in 0..n {
        let k = ctx.pick(PIECES.len() + usize::from(allow_ws_controls));
        if k == PIECES.len() {
            s.push_str("\n\t");
        } else {
            s.push_str(PIECES[k]);
        }
    }
    if ctx.tier == Tier::Thorough && ctx.chance(1, 50) {
        s.push_str(&"long&<".repeat(20_000));
    }
    s
}

fn gen_fragment_elem(ctx: &mut Ctx, depth: usize) -> E {
    let ns = *ctx.tape.choose(&["", "urn:x", "http://xml.juniper.net/xnm/1.1/xnm"]);
    let name = *ctx.tape.choose(&["top", "configuration", "item", "a-b", "x1"]);
    let mut e = E::new(ns, name);
    for i in 0..ctx.pick(3) {
        let v = gen_text(ctx, false).replace("]]>]]>", "]]>");
        e = e.attr(&format!("at{i}"), &v);
    }
    let kids = if depth >= 2 { 0 } else { ctx.pick(3) };
    if kids == 0 {
        if ctx.pick(2) == 1 {
            e = e.text(&gen_text(ctx, true));
        }
    } else {
        for _ in 0..kids {
            e.push(gen_fragment_elem(ctx, depth + 1));
        }
    }
    e
}

/// A well-formed fragment (one or two sibling elements) that never contains the delimiter.
pub fn gen_fragment(ctx: &mut Ctx) -> String {
    let n = 1 + ctx.pick(2);
    let mut s = String::new();
    for _ in 0..n {
        let e = gen_fragment_elem(ctx, 0);
        let styled = ctx.pick(2) == 1;
        let doc = if styled {
            let enabled: Vec<_> = ALL_RW.iter().copied().filter(|r| r.name() != "xml-declaration").collect();
            Ser::new(Style::Random { ctx, num: 1, den: 3, enabled }).document(&e)
        } else {
            crate::doc::canonical(&e)
        };
        s.push_str(&doc);
    }
    debug_assert!(!s.contains("]]>]]>"));
    s
}

fn gen_url(ctx: &mut Ctx) -> String {
    let scheme = *ctx.tape.choose(&["http", "ftp", "file"]);
    let path = *ctx.tape.choose(&["/a/b.xml", "/cfg?x=1&y=2", "/o'brien/cfg", "/p;type=i", "/%5D%5D%3E", "/a(b)*!$,+", "/base.conf#frag", "/"]);
    if scheme == "file" {
        return format!("file://host.example{path}");
    }
    // credentials, ports and literal addresses are part of the value the server must receive
    let userinfo = *ctx.tape.choose(&["", "", "backup@", "backup:s3cr%40t@", "backup:@", "u%20ser:p%3Aw@", "anonymous:a&b@"]);
    let host = *ctx.tape.choose(&["host.example", "host.example", "192.0.2.10", "[2001:db8::1]", "xn--bcher-kva.example"]);
    let port = *ctx.tape.choose(&["", "", ":8080", ":2121"]);
    format!("{scheme}://{userinfo}{host}{port}{path}")
}

#[derive(Clone, Debug)]
enum Param {
    CommitPersist(String),
    CommitPersistId(String),
    CancelPersistId(String),
    EphemeralName(String),
    CommitLog(String),
    GetXPath(String),
    GetConfigXPath(String),
    GetSubtree(String),
    GetConfigSubtree(String),
    EditConfigFragment(String),
    EditConfigUrl(String),
    DeleteConfigUrl(String),
    CopyConfigFragment(String),
    ValidateFragment(String),
    LoadText(String),
    LoadTextOverride(String),
    LoadSet(String),
    LoadJson(String),
    LoadXmlFragment(String),
    /// several parameters of one operation at once (a value must not be lost or altered because
    /// another parameter is present)
    CommitCombo { timeout_s: Option<u64>, persist: Option<String> },
    JunosCommitCombo { check: bool, confirm_s: Option<u64>, log: Option<String>, sync: Option<bool> },
    EditConfigCombo { candidate: bool, fragment: Option<String>, url: Option<String>, defop: usize, errop: usize, testop: usize },
    /// a caller-supplied payload type whose write_xml fails after having written `written` elements:
    /// the call must fail, nothing may be sent, and nothing may be left behind for later messages
    FailingPayload { written: usize, via_load: bool },
    /// the data of a get-config reply (an Opaque value read from the server) is sent back unchanged as the
    /// payload of an edit-config: two requests; the server must read back the fragment it had sent
    RoundTrip(String),
}

/// A configuration payload produced from a fallible source.
#[derive(Debug)]
struct Flaky {
    written: usize,
}

impl netconf::message::WriteXml for Flaky {
    fn write_xml<W: std::io::Write>(&self, writer: &mut quick_xml::Writer<W>) -> Result<(), netconf::message::WriteError> {
        _ = writer.create_element("configuration").write_inner_content(|w| {
            for i in 0..self.written {
                _ = w.create_element(format!("item{i}").as_str()).write_empty()?;
            }
            Err::<(), netconf::message::WriteError>(netconf::message::WriteError::Other("the payload source gave out".into()))
        })?;
        Ok(())
    }
}

const DEFOPS: [&str; 3] = ["merge", "replace", "none"];
const ERROPS: [&str; 3] = ["stop-on-error", "continue-on-error", "rollback-on-error"];
const TESTOPS: [&str; 3] = ["test-then-set", "set", "test-only"];

impl Param {
    fn name(&self) -> &'static str {
        match self {
            Self::CommitPersist(_) => "commit/persist",
            Self::CommitPersistId(_) => "commit/persist-id",
            Self::CancelPersistId(_) => "cancel-commit/persist-id",
            Self::EphemeralName(_) => "open-configuration/ephemeral-instance",
            Self::CommitLog(_) => "commit-configuration/log",
            Self::GetXPath(_) => "get/filter-select",
            Self::GetConfigXPath(_) => "get-config/filter-select",
            Self::GetSubtree(_) => "get/filter-subtree",
            Self::GetConfigSubtree(_) => "get-config/filter-subtree",
            Self::EditConfigFragment(_) => "edit-config/config",
            Self::EditConfigUrl(_) => "edit-config/url",
            Self::DeleteConfigUrl(_) => "delete-config/url",
            Self::CopyConfigFragment(_) => "copy-config/config",
            Self::ValidateFragment(_) => "validate/config",
            Self::LoadText(_) | Self::LoadTextOverride(_) => "load-configuration/configuration-text",
            Self::LoadSet(_) => "load-configuration/configuration-set",
            Self::LoadJson(_) => "load-configuration/configuration-json",
            Self::LoadXmlFragment(_) => "load-configuration/xml",
            Self::CommitCombo { .. } => "commit/combination",
            Self::JunosCommitCombo { .. } => "commit-configuration/combination",
            Self::EditConfigCombo { .. } => "edit-config/combination",
            Self::FailingPayload { via_load: false, .. } => "edit-config/failing-payload",
            Self::FailingPayload { via_load: true, .. } => "load-configuration/failing-payload",
            Self::RoundTrip(_) => "edit-config/config-read-from-get-config",
        }
    }
}

fn gen_param(ctx: &mut Ctx) -> Param {
    match ctx.pick(24) {
        23 => Param::RoundTrip(gen_fragment(ctx)),
        22 => Param::FailingPayload { written: ctx.pick(4), via_load: ctx.pick(2) == 1 },
        19 => Param::CommitCombo {
            timeout_s: match ctx.pick(4) {
                0 => None,
                1 => Some(600),
                2 => Some(1 + ctx.pick(100_000) as u64),
                _ => Some(60),
            },
            persist: (ctx.pick(3) != 0).then(|| gen_text(ctx, true)),
        },
        20 => Param::JunosCommitCombo {
            check: ctx.pick(2) == 1,
            confirm_s: match ctx.pick(3) {
                0 => None,
                1 => Some(600),
                _ => Some(60 * (1 + ctx.pick(100) as u64)),
            },
            log: (ctx.pick(3) != 0).then(|| gen_text(ctx, true)),
            sync: *ctx.tape.choose(&[None, Some(false), Some(true)]),
        },
        21 => {
            let use_url = ctx.pick(3) == 0;
            Param::EditConfigCombo {
                candidate: ctx.pick(2) == 1,
                fragment: (!use_url).then(|| gen_fragment(ctx)),
                url: use_url.then(|| gen_url(ctx)),
                defop: ctx.pick(3),
                errop: ctx.pick(3),
                testop: ctx.pick(3),
            }
        }
        0 => Param::CommitPersist(gen_text(ctx, true)),
        1 => Param::CommitPersistId(gen_text(ctx, true)),
        2 => Param::CancelPersistId(gen_text(ctx, true)),
        3 => Param::EphemeralName(gen_text(ctx, true)),
        4 => Param::CommitLog(gen_text(ctx, true)),
        5 => Param::GetXPath(gen_text(ctx, false)),
        6 => Param::GetConfigXPath(gen_text(ctx, false)),
        7 => Param::GetSubtree(gen_fragment(ctx)),
        8 => Param::GetConfigSubtree(gen_fragment(ctx)),
        9 => Param::EditConfigFragment(gen_fragment(ctx)),
        10 => Param::EditConfigUrl(gen_url(ctx)),
        11 => Param::DeleteConfigUrl(gen_url(ctx)),
        12 => Param::CopyConfigFragment(gen_fragment(ctx)),
        13 => Param::ValidateFragment(gen_fragment(ctx)),
        14 => Param::LoadText(gen_text(ctx, true)),
        15 => Param::LoadTextOverride(gen_text(ctx, true)),
        16 => Param::LoadSet(gen_text(ctx, true)),
        17 => Param::LoadJson(gen_text(ctx, true)),
        _ => Param::LoadXmlFragment(gen_fragment(ctx)),
    }
}

struct Fake {
    /// data of the replies to get-config requests, in order
    data: std::collections::VecDeque<String>,
}
impl Server for Fake {
    fn on_message(&mut self, msg: &str) -> Vec<Vec<u8>> {
        // answer whatever can be answered: find a message-id leniently so that a malformed request does not stall the run
        let id = msg.split("message-id=\"").nth(1).and_then(|s| s.split('"').next()).unwrap_or("0").to_string();
        if msg.trim_start().starts_with("<hello") {
            return vec![];
        }
        if !msg.trim_start().starts_with("<rpc") {
            return vec![];
        }
        let round_trip;
        let body = if msg.contains("<get-config") && !msg.contains("<filter") && !self.data.is_empty() {
            round_trip = format!("<data>{}</data>", self.data.pop_front().unwrap_or_default());
            &round_trip
        } else if msg.contains("<get") {
            "<data/>"
        } else if msg.contains("<open-configuration") {
            ""
        } else if msg.contains("<load-configuration") {
            "<load-configuration-results><ok/></load-configuration-results>"
        } else {
            "<ok/>"
        };
        vec![reply(&id, body)]
    }
}

async fn issue(s: &mut Session<SimTransport>, p: &Param) -> Result<(), Error> {
    match p.clone() {
        Param::CommitPersist(v) => s.rpc::<Commit, _>(|b| b.confirmed(true)?.persist(Some(Token::new(v)))?.finish()).await.map(drop),
        Param::CommitPersistId(v) => s.rpc::<Commit, _>(|b| b.persist_id(Some(Token::new(v)))?.finish()).await.map(drop),
        Param::CancelPersistId(v) => s.rpc::<CancelCommit, _>(|b| b.persist_id(Some(Token::new(v)))?.finish()).await.map(drop),
        Param::EphemeralName(v) => s.rpc::<OpenConfiguration, _>(|b| b.ephemeral(Some(v)).finish()).await.map(drop),
        Param::CommitLog(v) => s.rpc::<CommitConfiguration, _>(|b| b.with_log_message(v).finish()).await.map(drop),
        Param::GetXPath(v) => s.rpc::<Get, _>(|b| b.filter(Some(Filter::XPath(v))).finish()).await.map(drop),
        Param::GetConfigXPath(v) => s.rpc::<GetConfig<Opaque>, _>(|b| b.source(Datastore::Running)?.filter(Some(Filter::XPath(v)))?.finish()).await.map(drop),
        Param::GetSubtree(v) => s.rpc::<Get, _>(|b| b.filter(Some(Filter::Subtree(v))).finish()).await.map(drop),
        Param::GetConfigSubtree(v) => s.rpc::<GetConfig<Opaque>, _>(|b| b.source(Datastore::Running)?.filter(Some(Filter::Subtree(v)))?.finish()).await.map(drop),
        Param::EditConfigFragment(v) => s.rpc::<EditConfig<Opaque>, _>(|b| b.target(Datastore::Candidate)?.config(Opaque::from(v)).finish()).await.map(drop),
        Param::EditConfigUrl(v) => s.rpc::<EditConfig<Opaque>, _>(|b| b.target(Datastore::Candidate)?.url(v)?.finish()).await.map(drop),
        Param::DeleteConfigUrl(v) => s.rpc::<DeleteConfig, _>(|b| b.url(v)?.finish()).await.map(drop),
        Param::CopyConfigFragment(v) => s.rpc::<CopyConfig, _>(|b| b.target(Datastore::Candidate)?.config(v).finish()).await.map(drop),
        Param::ValidateFragment(v) => s.rpc::<Validate, _>(|b| b.config(v).finish()).await.map(drop),
        Param::LoadText(v) => s.rpc::<LoadConfiguration<_>, _>(|b| b.source(Config::new(v, Text, Merge)).finish()).await.map(drop),
        Param::LoadTextOverride(v) => s.rpc::<LoadConfiguration<_>, _>(|b| b.source(Config::new(v, Text, Override)).finish()).await.map(drop),
        Param::LoadSet(v) => s.rpc::<LoadConfiguration<_>, _>(|b| b.source(Config::new(v, Text, Set)).finish()).await.map(drop),
        Param::LoadJson(v) => s.rpc::<LoadConfiguration<_>, _>(|b| b.source(Config::new(v, Json, Merge)).finish()).await.map(drop),
        Param::LoadXmlFragment(v) => s.rpc::<LoadConfiguration<_>, _>(|b| b.source(Config::new(Opaque::from(v), Xml, Merge)).finish()).await.map(drop),
        Param::RoundTrip(_) => {
            let data: Opaque = s.rpc::<GetConfig<Opaque>, _>(|b| b.source(Datastore::Running)?.finish()).await?.await?;
            s.rpc::<EditConfig<Opaque>, _>(|b| b.target(Datastore::Candidate)?.config(data).finish()).await.map(drop)
        }
        Param::FailingPayload { written, via_load: false } => s.rpc::<EditConfig<Flaky>, _>(|b| b.target(Datastore::Candidate)?.config(Flaky { written }).finish()).await.map(drop),
        Param::FailingPayload { written, via_load: true } => s.rpc::<LoadConfiguration<_>, _>(|b| b.source(Config::new(Flaky { written }, Xml, Merge)).finish()).await.map(drop),
        Param::CommitCombo { timeout_s, persist } => s
            .rpc::<Commit, _>(|b| {
                let mut b = b.confirmed(true)?;
                // parameters in either order
                if let Some(t) = timeout_s {
                    b = b.confirm_timeout(std::time::Duration::from_secs(t))?;
                }
                if let Some(p) = persist {
                    b = b.persist(Some(Token::new(p)))?;
                }
                b.finish()
            })
            .await
            .map(drop),
        Param::JunosCommitCombo { check, confirm_s, log, sync } => s
            .rpc::<CommitConfiguration, _>(|b| {
                let mut b = b.check(check);
                if let Some(t) = confirm_s {
                    b = if t == 600 { b.confirmed(true) } else { b.confirmed_with_timeout(std::time::Duration::from_secs(t)) };
                }
                if let Some(l) = log {
                    b = b.with_log_message(l);
                }
                if let Some(f) = sync {
                    b = b.synchronize(f);
                }
                b.finish()
            })
            .await
            .map(drop),
        Param::EditConfigCombo { candidate, fragment, url, defop, errop, testop } => s
            .rpc::<EditConfig<Opaque>, _>(|b| {
                let mut b = b.target(if candidate { Datastore::Candidate } else { Datastore::Running })?;
                b = match (fragment, url) {
                    (Some(f), _) => b.config(Opaque::from(f)),
                    (_, Some(u)) => b.url(u)?,
                    _ => b,
                };
                b = match defop {
                    1 => b.default_operation(DefaultOperation::Replace),
                    2 => b.default_operation(DefaultOperation::None),
                    _ => b,
                };
                b = match errop {
                    1 => b.error_option(ErrorOption::ContinueOnError)?,
                    2 => b.error_option(ErrorOption::RollbackOnError)?,
                    _ => b,
                };
                b = match testop {
                    1 => b.test_option(TestOption::Set)?,
                    2 => b.test_option(TestOption::TestOnly)?,
                    _ => b,
                };
                b.finish()
            })
            .await
            .map(drop),
    }
}

fn fragment_equal(container: &Elem, given: &str) -> Result<(), String> {
    let want = crate::xml::parse_fragment(given).map_err(|e| format!("harness: generated fragment does not parse: {e}"))?;
    let strip = |e: &Elem| -> String {
        let c = e.canon();
        // canon of the container without its own start/end
        c[c.find('>').map_or(0, |i| i + 1)..c.len() - 3].to_string()
    };
    let (a, b) = (strip(container), strip(&want));
    if a == b {
        Ok(())
    } else {
        Err(format!("fragment subtree differs: sent {a} expected {b}"))
    }
}

/// Locate the parameter in the parsed request and compare it with the value given.
fn read_back(rpc: &Elem, p: &Param) -> Result<(), String> {
    let op = rpc.elems().next().ok_or("no operation element")?;
    let text_of = |e: Option<&Elem>, what: &str| e.map(Elem::text).ok_or(format!("<{what}> missing"));
    let eq = |got: String, want: &str| if got == want { Ok(()) } else { Err(format!("value changed: server reads {got:?}, caller gave {want:?}")) };
    match p {
        Param::CommitPersist(v) => eq(text_of(op.child("persist"), "persist")?, v),
        Param::CommitPersistId(v) | Param::CancelPersistId(v) => eq(text_of(op.child("persist-id"), "persist-id")?, v),
        Param::EphemeralName(v) => eq(text_of(op.child("ephemeral-instance"), "ephemeral-instance")?, v),
        Param::CommitLog(v) => eq(text_of(op.child("log"), "log")?, v),
        Param::GetXPath(v) | Param::GetConfigXPath(v) => {
            let f = op.child("filter").ok_or("<filter> missing")?;
            eq(f.attr("select").ok_or("select attribute missing")?.to_string(), v)
        }
        Param::GetSubtree(v) | Param::GetConfigSubtree(v) => fragment_equal(op.child("filter").ok_or("<filter> missing")?, v),
        Param::EditConfigFragment(v) => fragment_equal(op.child("config").ok_or("<config> missing")?, v),
        Param::EditConfigUrl(v) => eq(text_of(op.child("url"), "url")?, v),
        Param::DeleteConfigUrl(v) => eq(text_of(op.child("target").and_then(|t| t.child("url")), "url")?, v),
        Param::CopyConfigFragment(v) | Param::ValidateFragment(v) => fragment_equal(op.child("source").and_then(|s| s.child("config")).ok_or("<source><config> missing")?, v),
        Param::LoadText(v) | Param::LoadTextOverride(v) => eq(text_of(op.child("configuration-text"), "configuration-text")?, v),
        Param::LoadSet(v) => eq(text_of(op.child("configuration-set"), "configuration-set")?, v),
        Param::LoadJson(v) => eq(text_of(op.child("configuration-json"), "configuration-json")?, v),
        Param::LoadXmlFragment(v) => fragment_equal(op, v),
        Param::FailingPayload { .. } => Err("a request whose payload could not be serialised was sent".into()),
        Param::RoundTrip(v) => fragment_equal(op.child("config").ok_or("<config> missing")?, v),
        Param::CommitCombo { timeout_s, persist } => {
            if op.child("confirmed").is_none() {
                return Err("<confirmed> missing".into());
            }
            match (timeout_s, op.child("confirm-timeout")) {
                (Some(t), Some(e)) => eq(e.text().trim().to_string(), &t.to_string())?,
                (Some(600) | None, None) => {}
                (Some(t), None) => return Err(format!("<confirm-timeout> missing (caller gave {t} s, the default is 600 s)")),
                (None, Some(e)) => eq(e.text().trim().to_string(), "600")?,
            }
            match (persist, op.child("persist")) {
                (Some(p), Some(e)) => eq(e.text(), p),
                (None, None) => Ok(()),
                (Some(p), None) => Err(format!("<persist> missing (caller gave the token {p:?}) while confirm-timeout is {timeout_s:?}")),
                (None, Some(e)) => Err(format!("<persist>{}</persist> sent although no token was given", e.text())),
            }
        }
        Param::JunosCommitCombo { check, confirm_s, log, sync } => {
            let present = |n: &str| op.child(n).is_some();
            if present("check") != *check {
                return Err(format!("<check/> present = {}, caller asked for check = {check}", present("check")));
            }
            if present("confirmed") != confirm_s.is_some() {
                return Err(format!("<confirmed/> present = {}, caller asked for {confirm_s:?}", present("confirmed")));
            }
            if let Some(t) = confirm_s {
                match op.child("confirm-timeout") {
                    Some(e) => eq(e.text().trim().to_string(), &(t / 60).to_string())?,
                    None if *t == 600 => {}
                    None => return Err(format!("<confirm-timeout> missing (caller gave {t} s, the default is 600 s)")),
                }
            }
            match (log, op.child("log")) {
                (Some(l), Some(e)) => eq(e.text(), l)?,
                (None, None) => {}
                (Some(l), None) => return Err(format!("<log> missing (caller gave {l:?})")),
                (None, Some(_)) => return Err("<log> sent although none was given".into()),
            }
            let (plain, force) = (present("synchronize"), present("force-synchronize"));
            match sync {
                None if plain || force => Err("synchronize element sent although not asked for".into()),
                Some(false) if !plain => Err("<synchronize/> missing".into()),
                Some(true) if !force => Err("<force-synchronize/> missing".into()),
                _ => Ok(()),
            }
        }
        Param::EditConfigCombo { candidate, fragment, url, defop, errop, testop } => {
            let want_ds = if *candidate { "candidate" } else { "running" };
            if op.child("target").and_then(|t| t.elems().next()).map(|e| e.local.as_str()) != Some(want_ds) {
                return Err(format!("<target> does not name <{want_ds}/>"));
            }
            let opt = |name: &str, table: &[&str; 3], k: usize| -> Result<(), String> {
                match op.child(name) {
                    Some(e) => eq(e.text().trim().to_string(), table[k]),
                    None if k == 0 => Ok(()),
                    None => Err(format!("<{name}> missing (caller chose {})", table[k])),
                }
            };
            opt("default-operation", &DEFOPS, *defop)?;
            opt("error-option", &ERROPS, *errop)?;
            opt("test-option", &TESTOPS, *testop)?;
            if let Some(f) = fragment {
                fragment_equal(op.child("config").ok_or("<config> missing")?, f)?;
            }
            if let Some(u) = url {
                eq(text_of(op.child("url"), "url")?, u)?;
            }
            Ok(())
        }
    }
}

fn run(ctx: &mut Ctx) -> Verdict {
    // one run in 1500: the real transports (R-sim) with one large request among pipelined ones - what
    // the peer frames by the delimiter must be every request, complete and well-formed, exactly once
    if ctx.tape.weighted(&[1499, 1]) == 1 {
        return super::c18_rsim::run_mode(ctx, super::c18_rsim::Mode::BigRequest);
    }
    let n = 1 + ctx.pick(3);
    let mut params: Vec<Param> = (0..n).map(|_| gen_param(ctx)).collect();
    // one run in 12: request `ab` is given up by its caller (the rpc() future is dropped) at its first
    // suspension point after bytes went out - the transport's flush is still pending. In half of these
    // runs it carries a subtree filter of 70-200 KiB. The in-memory transport takes a send() call as a
    // whole, so the server must be left with whole messages only: nothing unterminated that the next
    // request would be glued to.
    let abandon: Option<usize> = ctx.chance(1, 12).then(|| ctx.pick(n));
    if let Some(ab) = abandon {
        if ctx.pick(2) == 0 {
            let len = 70_000 + ctx.pick(130_000);
            params[ab] = Param::GetSubtree(format!("<top xmlns=\"urn:x\"><big>{}</big></top>", "0123456789abcdef".repeat(len / 16)));
            ctx.count("probe.abandoned_request_above_64_KiB");
        }
        params.push(Param::CommitLog("after the abandoned call".into()));
        // (the reply to the abandoned request belongs to nobody and fails whoever reads it: the round trip,
        // the only parameter kind that awaits a reply, is left out of these runs)
        for p in &mut params {
            if matches!(p, Param::RoundTrip(_)) {
                *p = Param::CommitLog("instead of a round trip".into());
            }
        }
        ctx.count("fault.rpc_call_dropped_while_its_send_is_pending");
    }
    for p in &params {
        ev!(ctx, "param {}", format!("{p:?}").chars().take(300).collect::<String>());
    }
    ev!(ctx, "abandoned call: {abandon:?}");
    let caps = [
        CAP_BASE10,
        CAP_JUNOS,
        "urn:ietf:params:netconf:capability:candidate:1.0",
        "urn:ietf:params:netconf:capability:confirmed-commit:1.1",
        "urn:ietf:params:netconf:capability:validate:1.1",
        "urn:ietf:params:netconf:capability:xpath:1.0",
        "urn:ietf:params:netconf:capability:url:1.0?scheme=http,ftp,file",
        "urn:ietf:params:netconf:capability:writable-running:1.0",
        "urn:ietf:params:netconf:capability:rollback-on-error:1.0",
    ];
    // per request: (messages framed by the server during the call, bytes left unframed, send result)
    let obs: Arc<Mutex<Vec<(usize, usize, usize, Result<(), String>)>>> = Arc::default();
    let (obs2, params2) = (obs.clone(), params.clone());
    let (q, exec) = drive(ctx, Box::new(Fake { data: params.iter().filter_map(|p| if let Param::RoundTrip(f) = p { Some(f.clone()) } else { None }).collect() }), Some(hello_with(&caps, "9")), SchedCfg::default(), move |net, _| {
        Box::pin(async move {
            let mut s = match Session::verif_new(SimTransport(net.clone())).await {
                Ok(s) => s,
                Err(e) => {
                    obs2.lock().unwrap().push((usize::MAX, 0, 0, Err(format!("{e:?}"))));
                    return;
                }
            };
            for (k, p) in params2.iter().enumerate() {
                let before = net.lock().unwrap().received.len();
                if Some(k) == abandon {
                    net.lock().unwrap().send_after.push_back(1);
                    let r = super::c05::GiveUpWhenPending(Box::pin(issue(&mut s, p))).await;
                    let mut n = net.lock().unwrap();
                    if n.received.len() == before && n.unframed_len() == 0 {
                        // given up (or refused locally) before any send: its queue entry was not consumed
                        let _ = n.send_after.pop_back();
                    }
                    let r = match r {
                        None => Ok(()),
                        Some(r) => r.map_err(|e| format!("{e:?}")),
                    };
                    obs2.lock().unwrap().push((k, n.received.len() - before, n.unframed_len(), r));
                    continue;
                }
                let r = issue(&mut s, p).await.map_err(|e| format!("{e:?}"));
                let n = net.lock().unwrap();
                obs2.lock().unwrap().push((k, n.received.len() - before, n.unframed_len(), r));
            }
        })
    });
    if let Some((t, m)) = exec.panics.first() {
        return Verdict::violation("panic", format!("task {t} panicked: {m}"));
    }
    if !matches!(q, Quiescence::Quiet(_)) {
        return Verdict::violation("stuck", format!("{q:?}"));
    }
    let obs = obs.lock().unwrap().clone();
    if let Some((_, _, _, Err(e))) = obs.iter().find(|o| o.0 == usize::MAX) {
        return Verdict::violation("session-establishment-failed", e.clone());
    }
    let received = exec.net.lock().unwrap().received.clone();
    let mut idx = 1; // received[0] is the client hello
    for (k, framed, unframed, res) in &obs {
        let p = &params[*k];
        let name = p.name();
        if let Err(e) = res {
            // a local refusal is not this property's business, but nothing may have been sent
            if *framed != 0 || *unframed != 0 {
                return Verdict::violation(format!("rejected-but-sent/{name}"), format!("{e}"));
            }
            ctx.count("outcome.rejected_locally");
            continue;
        }
        ctx.nontrivial = true;
        if Some(*k) == abandon && *unframed != 0 {
            return Verdict::violation(
                format!("partial-message-left-at-the-server/{name}"),
                format!("an rpc() call dropped while its send was pending left {framed} complete message(s) and {unframed} byte(s) of an unterminated message at the server (the transport takes each send() as a whole): the next request will be glued to them"),
            );
        }
        let expect = if matches!(p, Param::RoundTrip(_)) { 2 } else { 1 };
        if *framed != expect || *unframed != 0 {
            return Verdict::violation(
                format!("not-exactly-one-message/{name}"),
                format!("one rpc() produced {framed} delimiter-terminated message(s) and {unframed} trailing byte(s) at the server; parameter {p:?}"),
            );
        }
        if expect == 2 {
            // the get-config request itself
            if let Err(e) = crate::xml::parse(&received[idx]) {
                return Verdict::violation(format!("malformed-request/{name}"), format!("{e}; message {}", received[idx].chars().take(400).collect::<String>()));
            }
        }
        let msg = &received[idx + expect - 1];
        idx += framed;
        let doc = match crate::xml::parse(msg) {
            Ok(d) => d,
            Err(e) => return Verdict::violation(format!("malformed-request/{name}"), format!("{e}; parameter {p:?}; message {}", msg.chars().take(400).collect::<String>())),
        };
        if doc.root.local != "rpc" {
            return Verdict::violation(format!("malformed-request/{name}"), format!("root element is <{}>", doc.root.local));
        }
        if let Err(why) = read_back(&doc.root, p) {
            if why.starts_with("harness:") {
                return Verdict::violation("harness-error", why);
            }
            return Verdict::violation(format!("value-changed/{name}"), format!("{why}; message {}", msg.chars().take(400).collect::<String>()));
        }
    }
    Verdict::Pass
}

pub static C10: PropSpec = PropSpec {
    id: "C10",
    simulator: "S-sim + R-sim",
    level: "exploration",
    runs: |t| if t == Tier::Thorough { 10_000_000 } else { 200_000 },
    enumerated: |_| 0,
    run,
    rule: "one run in 1500: 2-4 pipelined requests over the real TLS / SSH / local transport of which the first carries a 70-260 KiB subtree filter (larger than a pipe or socket buffer accepts at once); the scripted peer frames by the delimiter and must see every request exactly once, well-formed, the large value complete. Otherwise: 1-3 requests per session, each exercising one text-valued or fragment-valued parameter of one operation (19 parameter sites), or several parameters of one operation at once (commit: confirm-timeout x persist token; commit-configuration: check x confirmed[-timeout] x log x synchronize; edit-config: target x config|url x default-operation x error-option x test-option), every one of which must be read back; or the data of a get-config reply (a generated fragment with entity references) sent back unchanged as an edit-config payload, which the server must read back as the fragment it had sent; or a caller-supplied payload whose serialisation fails half-way (the call must fail, nothing may be sent and later messages must be unaffected); in one run of 12 one rpc() call - in half of these with a 70-200 KiB filter - is dropped by its caller at its first suspension point after bytes went out (flush pending) and another request follows: the server must be left with whole messages only; text values are concatenations of pieces from an adversarial alphabet (XML metacharacters, quotes, ']]>', the delimiter itself, entity look-alikes, comment/CDATA/PI openers, non-ASCII, empty); fragments come from a well-formed fragment generator (namespaces, attributes, nested elements, rewrite styles) and never contain the delimiter. The server frames by delimiter and parses with the harness's strict parser. Non-trivial = at least one request was sent; distinct = distinct event-log hash (includes the parameter values)",
    components: &[("netconf session + request serialisers (message/**)", "real"), ("transport", "stub: in-memory; one run in 1500: the real TLS / SSH / local transports (send side under back-pressure) against the scripted R-sim peer"), ("NETCONF server", "model: frames by ]]>]]>, strict XML parser, reads values back")],
    assumptions: &[
        "decided by generated parameter values; schedule fixed",
        "attribute-valued parameters (XPath select) are generated without tab/newline characters (attribute-value normalisation would alter them on any XML serialiser that writes them literally)",
    ],
    watchdog_s: 30,
    stuck_is_verdict: false,
    serial: false,
};
