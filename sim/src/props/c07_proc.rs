//! C07, job level ("a hung job wedges the daemon"): the agent executable in daemon mode against
//! FakeJunos on a real TLS listener and FakeIrrd on a loopback TCP socket. The router closes the
//! connection at a chosen request (instead of replying, or right after its reply); the IRRd answers
//! normally or has gone silent (so that an evaluation is still in progress when the router goes
//! away). The job must fail and the daemon must announce its retry within 10 s of real time.

use std::io::Read;
use std::process::{Command, Stdio};
use std::sync::atomic::{AtomicBool, Ordering};
use std::sync::{Arc, Mutex};
use std::time::{Duration, Instant};

use crate::asim::{Body, FaultKind, Junos, RunningPolicy};
use crate::core::{Ctx, Verdict};
use crate::ev;
use crate::irrd::{Db, IrrState};
use crate::rsim::PKI;

use super::c20_agent::{agentbin_path, strip_ansi};

/// (request index within the session, close kind, silent IRRd)
/// requests of a run: 0 open-configuration, 1 get-config (candidates), 2 get-config (installed),
/// 3 load-configuration, 4 commit-configuration
const SCENARIOS: [(usize, FaultKind, bool); 15] = [
    (0, FaultKind::CloseBeforeReply, false),
    (0, FaultKind::CloseAfterReply, false),
    (1, FaultKind::CloseBeforeReply, false),
    (1, FaultKind::CloseAfterReply, false),
    (2, FaultKind::CloseBeforeReply, false),
    (2, FaultKind::CloseAfterReply, false),
    (3, FaultKind::CloseBeforeReply, false),
    (3, FaultKind::CloseAfterReply, false),
    (4, FaultKind::CloseBeforeReply, false),
    (4, FaultKind::CloseAfterReply, false),
    // the IRRd never answers a data query: whatever evaluation has started is still in progress
    (0, FaultKind::CloseBeforeReply, true),
    (0, FaultKind::CloseAfterReply, true),
    (1, FaultKind::CloseBeforeReply, true),
    (1, FaultKind::CloseAfterReply, true),
    (2, FaultKind::CloseBeforeReply, true),
];

pub fn scenarios() -> u64 {
    SCENARIOS.len() as u64
}

pub fn run(ctx: &mut Ctx, index: u64) -> Verdict {
    let (at, kind, silent) = SCENARIOS[index as usize % SCENARIOS.len()];
    ev!(ctx, "agent process (daemon): the router closes at request #{at} ({kind:?}); IRRd silent: {silent}");
    ctx.nontrivial = true;
    ctx.count("runs.agent-process.daemon");
    ctx.count(&format!("fault.router_{kind:?}"));
    if silent {
        ctx.count("fault.irrd_silent");
    }
    let mut db = Db::default();
    db.routes.insert("AS64500".into(), (vec!["192.0.2.0/24".into()], vec!["2001:db8::/32".into()]));
    let mut junos = Junos::default();
    junos.instances.insert("bgpfu".into(), Vec::new());
    junos.running = vec![RunningPolicy { name: "fltr-foo".into(), comment: Some("bgpfu-fltr: AS64500".into()), decorate: 0, active: None, body: Body::DefaultReject, attr_variant: 0 }];
    junos.faults = vec![(0, at, kind)];
    let shared = Arc::new(Mutex::new(junos));
    let irr = Arc::new(Mutex::new(IrrState { db, silent_data: silent, ..IrrState::default() }));
    let stop = Arc::new(AtomicBool::new(false));
    let (jport, jt) = match crate::asim::serve_junos_tls(shared.clone(), stop.clone()) {
        Ok(x) => x,
        Err(e) => return Verdict::violation("harness-error", format!("TLS listener: {e}")),
    };
    let (iport, it) = match crate::irrd::serve_tcp(irr.clone(), stop.clone()) {
        Ok(x) => x,
        Err(e) => {
            stop.store(true, Ordering::Relaxed);
            let _ = jt.join();
            return Verdict::violation("harness-error", format!("IRRd listener: {e}"));
        }
    };
    let mut cmd = Command::new(agentbin_path());
    cmd.env_clear()
        .env("RUST_BACKTRACE", "0")
        .args(["-f", "3600", "--ephemeral-db", "bgpfu", "--irrd-host", "127.0.0.1", "--irrd-port", &iport.to_string()])
        .args(["remote", "--netconf-host", "127.0.0.1", "--netconf-port", &jport.to_string(), "--tls-server-name", "localhost"])
        .args(["--ca-cert-path", &format!("{PKI}/ca.crt"), "--client-cert-path", &format!("{PKI}/client.crt"), "--client-key-path", &format!("{PKI}/client.key")])
        .stdin(Stdio::null())
        .stdout(Stdio::null())
        .stderr(Stdio::piped());
    let mut child = match crate::core::spawn_retry(&mut cmd) {
        Ok(c) => c,
        Err(e) => {
            stop.store(true, Ordering::Relaxed);
            let _ = (jt.join(), it.join());
            return Verdict::violation("harness-error", format!("spawn {:?}: {e}", agentbin_path()));
        }
    };
    let mut stderr = child.stderr.take().expect("stderr");
    let buf: Arc<Mutex<Vec<u8>>> = Arc::default();
    let buf2 = buf.clone();
    let reader = std::thread::spawn(move || {
        let mut b = [0u8; 4096];
        while let Ok(n) = stderr.read(&mut b) {
            if n == 0 {
                break;
            }
            buf2.lock().unwrap().extend_from_slice(&b[..n]);
        }
    });
    let text = || strip_ansi(&String::from_utf8_lossy(&buf.lock().unwrap()));
    // the router has closed (or the daemon has already reported the failure)
    let t0 = Instant::now();
    let mut closed_at: Option<Instant> = None;
    let mut reported = false;
    let mut exited = None;
    while t0.elapsed() < Duration::from_secs(30) {
        crate::core::beat();
        if closed_at.is_none() && shared.lock().unwrap().sessions.first().is_some_and(|s| s.closed_by_server) {
            closed_at = Some(Instant::now());
        }
        if text().contains("trying in ") {
            reported = true;
            break;
        }
        if let Ok(Some(s)) = child.try_wait() {
            exited = Some(s);
            break;
        }
        if closed_at.is_some_and(|c| c.elapsed() > Duration::from_secs(10)) {
            break;
        }
        std::thread::sleep(Duration::from_millis(2));
    }
    let _ = child.kill();
    let _ = child.wait();
    stop.store(true, Ordering::Relaxed);
    let _ = (jt.join(), it.join());
    let _ = reader.join();
    let ops: Vec<String> = shared.lock().unwrap().sessions.first().map(|s| s.log.iter().map(|r| r.op.clone()).collect()).unwrap_or_default();
    ev!(ctx, "router closed: {}; failure reported: {reported}; requests seen by the router: {}", closed_at.is_some(), ops.len().min(at + 1));
    if let Some(s) = exited {
        return Verdict::violation("daemon-exited", format!("the daemon ended ({s}) after the router closed at request #{at} ({kind:?}); output tail {:?}", text().lines().rev().take(3).collect::<Vec<_>>()));
    }
    if closed_at.is_none() && !reported {
        return Verdict::violation("harness-error", format!("the router never reached request #{at} within 30 s (requests seen: {ops:?}); output tail {:?}", text().lines().rev().take(3).collect::<Vec<_>>()));
    }
    if !reported {
        return Verdict::violation(
            if silent { "job-hangs-after-disconnect/evaluation-in-progress" } else { "job-hangs-after-disconnect" },
            format!("the router closed the connection at request #{at} ({kind:?}, requests seen: {ops:?}; IRRd silent: {silent}) but 10 s later the daemon had not reported the failed job: the job - and the daemon's loop with it - is still waiting; output tail {:?}", text().lines().rev().take(6).map(|l| l.chars().take(160).collect::<String>()).collect::<Vec<_>>()),
        );
    }
    Verdict::Pass
}
