//! C18 over the real transports (R-sim): "transport receive buffers live in the handle, not in the
//! future". Two to four pipelined requests against the scripted peer over TLS, SSH and the local
//! transport; replies arrive in a seeded order, cut into chunks; between two chunks the reply
//! future of one or two requests is dropped (the task awaiting it is aborted at its current
//! suspension point - inside the transport read if it is the reader). Every surviving request must
//! resolve to its own reply and a further request must work.

use crate::core::{Ctx, Verdict};
use crate::ev;
use crate::rsim::{hello_msg, reply_msg, run_scenario, Kind, Res, Scenario, Step};
use crate::ssim::{CAP_BASE10, CAP_JUNOS};

const KINDS: [Kind; 3] = [Kind::Tls, Kind::Ssh, Kind::Local];

#[derive(Clone, Copy, Debug, PartialEq, Eq)]
pub enum Mode {
    /// C18: reply futures are dropped between deliveries
    DropReaders,
    /// C05: nothing is dropped; the replies arrive as one byte stream cut at seeded positions, so
    /// that several complete replies can arrive in one delivery
    Coalesced,
    /// C10: request #0 is large (70-260 KiB); the peer must receive every request complete,
    /// well-formed and exactly once
    BigRequest,
    /// C14: like Coalesced, plus one hostile message (not UTF-8, not XML, cut short, empty) somewhere in
    /// the stream: no call may wait for ever, and whoever gets a value gets its own reply
    HostileCoalesced,
}

pub fn run(ctx: &mut Ctx) -> Verdict {
    run_mode(ctx, Mode::DropReaders)
}

pub fn run_mode(ctx: &mut Ctx, mode: Mode) -> Verdict {
    let kind = KINDS[ctx.tape.weighted(&[6, 6, if mode == Mode::DropReaders { 2 } else { 5 }])];
    let n = 2 + ctx.pick(3);
    // delivery order of the replies
    let mut order: Vec<usize> = (0..n).collect();
    for i in (1..n).rev() {
        order.swap(i, ctx.pick(i + 1));
    }
    let mut chunks: Vec<Vec<u8>> = Vec::new();
    if mode == Mode::DropReaders {
        for &k in &order {
            let len = match ctx.tape.weighted(&[4, 2, 1]) {
                0 => 110 + ctx.pick(200),
                1 => 1000 + ctx.pick(100),
                _ => 3000 + ctx.pick(3000),
            };
            let r = reply_msg(k + 1, len);
            let pieces = 1 + ctx.tape.weighted(&[2, 4, 2]);
            let mut cuts: Vec<usize> = (1..pieces).map(|_| 1 + ctx.pick(r.len() - 1)).collect();
            cuts.sort_unstable();
            cuts.dedup();
            let mut at = 0;
            for c in cuts {
                chunks.push(r[at..c].to_vec());
                at = c;
            }
            chunks.push(r[at..].to_vec());
        }
    } else {
        // one byte stream, 0-3 cuts anywhere: with no cut every reply arrives in one delivery
        let mut msgs: Vec<Vec<u8>> = order.iter().map(|&k| reply_msg(k + 1, 110 + ctx.pick(300))).collect();
        if mode == Mode::HostileCoalesced {
            let hostile: &[u8] = *ctx.tape.choose(&[&b"\xff\xfe\x00garbage\x80]]>]]>"[..], b"<rpc-reply]]>]]>", b"not xml at all]]>]]>", b"]]>]]>", b"<rpc-reply message-id=\"1\" xmlns=\"urn:ietf:params:xml:ns:netconf:base:1.0\"><data>]]>]]>", b"\n]]>]]>"]);
            msgs.insert(ctx.pick(msgs.len() + 1), hostile.to_vec());
        }
        let stream: Vec<u8> = msgs.concat();
        let mut cuts: Vec<usize> = (0..ctx.tape.weighted(&[3, 3, 2, 1])).map(|_| 1 + ctx.pick(stream.len() - 1)).collect();
        cuts.sort_unstable();
        cuts.dedup();
        let mut at = 0;
        for c in cuts {
            chunks.push(stream[at..c].to_vec());
            at = c;
        }
        chunks.push(stream[at..].to_vec());
    }
    // one DropReaders run in six abandons something else: the client calls close() while its requests are
    // outstanding and drops the reply future that close() returns (it owns the session) without polling it
    let abandon_close = mode == Mode::DropReaders && ctx.chance(1, 6);
    let ndrops = if mode != Mode::DropReaders || abandon_close { 0 } else if n >= 3 && ctx.pick(3) == 0 { 2 } else { 1 };
    let mut drops: Vec<(usize, usize)> = Vec::new(); // (before chunk index, request)
    let first = ctx.pick(n);
    if ndrops >= 1 {
        drops.push((ctx.pick(chunks.len() + 1), first));
    }
    if ndrops == 2 {
        // a different request (no rejection loop: a replayed, shortened tape yields zeros for ever)
        let second = (first + 1 + ctx.pick(n - 1)) % n;
        drops.push((ctx.pick(chunks.len() + 1), second));
    }
    let mut steps = vec![Step::Chunk(hello_msg(&[CAP_BASE10, CAP_JUNOS])), Step::WaitClientMessages(1 + n), Step::SleepMs(1)];
    if abandon_close {
        // the close-session request has arrived, and the client has had time to drop the future
        steps.push(Step::WaitClientMessages(2 + n));
        steps.push(Step::SleepMs(2));
        if kind == Kind::Local {
            // if dropping that future makes the client kill its cli process, the kernel needs a moment of
            // real time to tell the harness
            steps.push(Step::RealPauseMs(40));
        }
    }
    for (i, c) in chunks.iter().enumerate() {
        for (at, k) in &drops {
            if *at == i {
                steps.push(Step::DropRequest(*k));
                steps.push(Step::SleepMs(1));
            }
        }
        steps.push(Step::Chunk(c.clone()));
    }
    for (at, k) in &drops {
        if *at == chunks.len() {
            steps.push(Step::DropRequest(*k));
            steps.push(Step::SleepMs(1));
        }
    }
    if !abandon_close {
        steps.push(Step::WaitClientMessages(2 + n));
    }
    steps.push(Step::Chunk(reply_msg(n + 1, 130)));
    steps.push(Step::SleepMs(2));
    let big_request = if mode == Mode::BigRequest { 70_000 + ctx.pick(190_000) } else { 0 };
    // half of the large requests meet small socket buffers and (TLS) a peer that reads slowly
    let slow_peer = mode == Mode::BigRequest && ctx.pick(2) == 1;
    if slow_peer {
        ctx.count("fault.small_socket_buffers_and_slow_peer");
    }
    let label = format!(
        "{mode:?}{} (request #0 carries {big_request} extra bytes, slow peer {slow_peer}): {n} requests, delivery order {order:?}, {} chunks {:?}, drops (before chunk, request) {drops:?}",
        if abandon_close { " + close() reply future abandoned" } else { "" },
        chunks.len(),
        chunks.iter().map(Vec::len).collect::<Vec<_>>()
    );
    let sc = Scenario { kind, steps, requests: n, extra_request: !abandon_close, label, bad_credentials: false, password: crate::rsim::SSH_PASSWORD.to_string(), big_request, slow_peer, ssh_setup: Default::default(), abandon_close, final_close: false };
    ev!(ctx, "scenario {}/{}", kind.name(), sc.label);
    let o = run_scenario(ctx, &sc);
    ev!(ctx, "establish {:?} results {:?} dropped {:?} extra {:?} harness {:?}", o.establish, o.results, o.dropped, o.extra, o.harness_error);
    ctx.sim_time_ns = o.virt_ns;
    ctx.nontrivial = !o.dropped.is_empty() || mode != Mode::DropReaders || abandon_close;
    if abandon_close {
        ctx.count("fault.close_reply_future_dropped_unpolled");
    }
    ctx.count(&format!("runs.real-transport.{}", kind.name()));
    ctx.count_n("fault.reply_future_dropped_on_real_transport", o.dropped.len() as u64);
    let t = kind.name();
    if let Some(e) = &o.harness_error {
        return Verdict::violation("harness-error", format!("{t}/{}: {e}", sc.label));
    }
    match &o.establish {
        Some(Res::Ok(_)) => {}
        other => return Verdict::violation(format!("establishment-failed/{t}"), format!("{}: {other:?}", sc.label)),
    }
    if mode == Mode::BigRequest {
        // what the peer framed by the delimiter: the client hello, then every request exactly once, each well-formed
        let reqs: Vec<&String> = o.client_messages.iter().filter(|m| m.contains("<rpc")).collect();
        if reqs.len() != n + 1 {
            return Verdict::violation(format!("not-exactly-one-message/{t}"), format!("{}: the peer framed {} requests for {} rpc() calls; results {:?}", sc.label, reqs.len(), n + 1, o.results));
        }
        for (i, m) in reqs.iter().enumerate() {
            match crate::xml::parse(m) {
                Ok(d) => {
                    if i == 0 {
                        let got = d.root.elems().next().and_then(|g| g.child("filter")).and_then(|f| f.elems().next()).and_then(|top| top.child("big")).map(crate::xml::Elem::text).unwrap_or_default();
                        if got.len() < big_request || !got.bytes().all(|b| b.is_ascii_hexdigit()) {
                            return Verdict::violation(format!("value-changed/{t}/big-filter"), format!("{}: the large filter arrived with {} bytes of text", sc.label, got.len()));
                        }
                    }
                }
                Err(e) => return Verdict::violation(format!("malformed-request/{t}"), format!("{}: request #{i} as framed by the peer is not well-formed: {e}; {} bytes", sc.label, m.len())),
            }
        }
    }
    let drops_mode = mode == Mode::DropReaders;
    let (c_wrong, c_failed, c_stuck, c_unusable) = if drops_mode {
        ("wrong-reply-after-drop", "survivor-failed-after-drop", "survivor-stuck-after-drop", "session-unusable-after-drop")
    } else {
        ("wrong-reply", "request-failed", "caller-waits-forever", "later-request-fails")
    };
    let after = if abandon_close {
        " after the reply future returned by close() was dropped".to_string()
    } else if drops_mode {
        format!(" after the reply futures of {:?} were dropped", o.dropped)
    } else {
        String::new()
    };
    for (k, r) in o.results.iter().enumerate() {
        let tag = format!("TAG-{}-", k + 1);
        let dropped = o.dropped.contains(&k);
        match r {
            Res::Ok(v) if v.contains(&tag) => {}
            // the caller that was reading when the hostile message arrived fails; that is the bounded-time error the property asks for
            Res::Err(_) if mode == Mode::HostileCoalesced => ctx.count("outcome.call_failed_on_hostile_message"),
            Res::Ok(v) => return Verdict::violation(format!("{c_wrong}/{t}"), format!("{}: request #{k} resolved to {v}", sc.label)),
            Res::Hang if dropped => {}
            Res::Err(e) => return Verdict::violation(format!("{c_failed}/{t}"), format!("{}: request #{k} failed{after}: {e}", sc.label)),
            Res::Hang => return Verdict::violation(format!("{c_stuck}/{t}"), format!("{}: request #{k} never completed{after}; results {:?}", sc.label, o.results)),
        }
    }
    match &o.extra {
        None if abandon_close => {}
        Some(Res::Ok(v)) if v.contains(&format!("TAG-{}-", n + 1)) => {}
        Some(Res::Err(_)) if mode == Mode::HostileCoalesced => {}
        other => return Verdict::violation(format!("{c_unusable}/{t}"), format!("{}: the request issued afterwards resolved to {other:?}{after}", sc.label)),
    }
    Verdict::Pass
}
