//! C19: the daemon retries with bounded back-off and stays responsive to signals — A-sim with
//! virtual time (one-day periods cost microseconds) and real Unix signals raised at chosen
//! virtual instants.

use std::num::NonZeroU64;
use std::sync::{Arc, Mutex};
use std::time::Duration;

use tokio::time::Instant;

use crate::asim::{connector, runtime, with_shared, AttemptKind, AttemptPlan, Junos};
use crate::core::{Ctx, PropSpec, Tier, Verdict};
use crate::ev;
use crate::irrd::{install, uninstall, IrrState};

const PERIODS: [u64; 14] = [3600, 60, 10, 300, 1, 5, 30, 59, 61, 90, 120, 900, 86_400, 7];

#[derive(Clone, Copy, Debug, PartialEq, Eq)]
enum Sig {
    Hup,
    Int,
    Term,
}

#[derive(Clone, Debug)]
struct Plan {
    period: u64,
    attempts: Vec<AttemptPlan>,
    /// (virtual ms, signal); the last one always terminates the daemon
    signals: Vec<(u64, Sig)>,
}

fn gen_plan(ctx: &mut Ctx) -> Plan {
    let period = PERIODS[ctx.tape.weighted(&[3; 14])];
    // one plan in 12 is a long outage: 34-80 attempts in a row fail (days to months of virtual time)
    let long = ctx.chance(1, 12);
    let n = if long { 34 + ctx.pick(47) } else { 2 + ctx.pick(if ctx.tier == Tier::Thorough { 14 } else { 8 }) };
    let mut attempts = Vec::new();
    let mut horizon_ms: u64 = 0;
    for _ in 0..n {
        let kind = match ctx.tape.weighted(if long { &[0, 8, 2, 1, 1] } else { &[6, 6, 4, 2, 1] }) {
            0 => AttemptKind::Succeed,
            1 => AttemptKind::FailConnect,
            2 => AttemptKind::FailAtRequest(ctx.pick(7)),
            3 => AttemptKind::CloseAtRequest(ctx.pick(7)),
            _ => AttemptKind::Panic,
        };
        // job duration: 0 .. 3 periods (7 requests, each with a send and a reply delay)
        let dur_ms = match ctx.tape.weighted(if long { &[6, 2, 0, 0] } else { &[4, 2, 1, 1] }) {
            0 => 0,
            1 => ctx.pick(1000) as u64,
            2 => period * 1000 / 2,
            _ => period * 1000 * (1 + ctx.pick(3) as u64),
        };
        // all delays are multiples of 10 ms; signals are raised at 5 (mod 10) ms, so a signal never coincides with a timer
        attempts.push(AttemptPlan { kind, connect_ms: dur_ms / 10 * 10, step_ms: dur_ms / 14 / 10 * 10 });
        horizon_ms += dur_ms + period.max(60) * 1000 * 2;
    }
    let horizon_ms = horizon_ms.max(10_000);
    // the k-th signal is raised at (k+1) (mod 10) ms: a signal never coincides with a timer deadline,
    // not even with those that follow an earlier SIGHUP-triggered run, nor with another signal
    let mut signals = Vec::new();
    let n_hup = if long { 0 } else { ctx.tape.weighted(&[3, 3, 2, 1]) };
    let mut times: Vec<u64> = (0..=n_hup).map(|_| ctx.pick((horizon_ms / 10) as usize) as u64 * 10).collect();
    if long {
        // the outage is over (and the daemon stopped) only in the last quarter of the horizon
        times[0] = horizon_ms / 4 * 3 / 10 * 10 + times[0] / 4 / 10 * 10;
    }
    times.sort_unstable();
    let term = if ctx.pick(2) == 0 { Sig::Term } else { Sig::Int };
    for (k, t) in times.iter().enumerate() {
        let sig = if k == n_hup { term } else { Sig::Hup };
        signals.push((t + k as u64 + 1, sig));
    }
    Plan { period, attempts, signals }
}

#[derive(Default, Debug)]
struct Observed {
    /// (virtual ns, signal) at the instant it was raised
    raised: Vec<(u64, Sig)>,
    exit_ns: Option<u64>,
    exit: Option<String>,
}

fn run(ctx: &mut Ctx) -> Verdict {
    if let Some(i) = ctx.enum_index {
        return super::c19_proc::run(ctx, i);
    }
    crate::ssim::quiet_panics();
    let plan = gen_plan(ctx);
    ev!(ctx, "plan period={}s attempts={:?} signals={:?}", plan.period, plan.attempts, plan.signals);
    let rt = runtime(ctx.pick(1 << 30) as u64);
    let mut junos = Junos::default();
    junos.instances.insert("bgpfu".into(), Vec::new());
    junos.script = plan.attempts.clone();
    let irr = Arc::new(Mutex::new(IrrState::default()));
    install(irr);
    let observed: Arc<Mutex<Observed>> = Arc::default();
    let obs2 = observed.clone();
    let signals = plan.signals.clone();
    let period = plan.period;
    let ((), junos) = with_shared(ctx, junos, vec![0], |sh| {
        let conn = connector(sh.clone());
        let obs_outer = obs2.clone();
        let run = std::panic::catch_unwind(std::panic::AssertUnwindSafe(|| rt.block_on(async move {
            let epoch = Instant::now();
            let obs3 = obs2.clone();
            let sig_task = tokio::spawn(async move {
                for (ms, sig) in signals {
                    tokio::time::sleep_until(epoch + Duration::from_millis(ms)).await;
                    let t = Instant::now().duration_since(epoch).as_nanos() as u64;
                    obs3.lock().unwrap().raised.push((t, sig));
                    crate::core::beat();
                    let signo = match sig {
                        Sig::Hup => libc::SIGHUP,
                        Sig::Int => libc::SIGINT,
                        Sig::Term => libc::SIGTERM,
                    };
                    // SAFETY: raising a signal for which tokio has installed a handler
                    unsafe {
                        libc::raise(signo);
                    }
                }
            });
            // the daemon registers its signal handlers synchronously at the start of its first poll,
            // i.e. before the signal task (first signal at >= 0.5 ms of virtual time) can raise anything
            let daemon = agent::verif::run_loop(conn, "irrd.sim", 43, "bgpfu", NonZeroU64::new(period).unwrap());
            let r = tokio::time::timeout(Duration::from_secs(400 * 86_400), daemon).await;
            let t = Instant::now().duration_since(epoch).as_nanos() as u64;
            let mut o = obs2.lock().unwrap();
            o.exit_ns = Some(t);
            o.exit = Some(match r {
                Ok(Ok(())) => "ok".into(),
                Ok(Err(e)) => format!("error: {e:#}"),
                Err(_) => "never exits".into(),
            });
            drop(o);
            sig_task.abort();
        })));
        if let Err(p) = run {
            // the daemon loop itself unwound: the process would have died
            let msg = p.downcast_ref::<String>().cloned().or_else(|| p.downcast_ref::<&str>().map(|s| (*s).to_string())).unwrap_or_default();
            let mut o = obs_outer.lock().unwrap();
            o.exit_ns = Some(0);
            o.exit = Some(format!("the daemon loop panicked: {msg}"));
        }
    });
    uninstall();
    drop(rt);
    let obs = observed.lock().unwrap();
    let attempts = junos.connection_attempts.clone();
    ev!(ctx, "attempts at {:?} ms", attempts.iter().map(|t| *t as f64 / 1e6).collect::<Vec<_>>());
    ev!(ctx, "signals raised {:?}; exit {:?} at {:?}", obs.raised, obs.exit, obs.exit_ns.map(|t| t as f64 / 1e6));
    ctx.sim_time_ns = obs.exit_ns.unwrap_or(0);
    ctx.count_n("probe.connection_attempts", attempts.len() as u64);
    for (_, s) in &obs.raised {
        ctx.count(&format!("fault.signal_{s:?}"));
    }
    // ---- oracle over the timeline
    let ms = |ns: u64| ns as f64 / 1e6;
    let exit_ns = match (&obs.exit, obs.exit_ns) {
        (Some(e), Some(t)) if e == "ok" => t,
        (e, _) => return Verdict::violation("daemon-did-not-exit-cleanly", format!("{e:?} (signals {:?})", obs.raised)),
    };
    let Some(&(term_ns, _)) = obs.raised.iter().find(|(_, s)| *s != Sig::Hup) else {
        return Verdict::violation("harness-error", "no terminating signal was raised".to_string());
    };
    let ends = junos.attempt_end.clone();
    ev!(ctx, "job ends (observed) {:?}", ends.iter().map(|e| e.map(|(t, f)| (ms(t), f))).collect::<Vec<_>>());
    if attempts.first() != Some(&0) {
        return Verdict::violation("no-initial-run", format!("first attempt at {:?}", attempts.first().map(|t| ms(*t))));
    }
    if let Some(late) = attempts.iter().find(|a| **a > exit_ns) {
        return Verdict::violation("attempt-after-exit", format!("attempt at {} ms after the daemon exited at {} ms", ms(*late), ms(exit_ns)));
    }
    // terminating signal while waiting => exit at that instant
    let last = attempts.len() - 1;
    match ends[last] {
        Some((e, _)) if e <= term_ns => {
            let pending_hup = obs.raised.iter().any(|(t, s)| *s == Sig::Hup && *t > attempts[last] && *t < e);
            if exit_ns != term_ns && !pending_hup {
                return Verdict::violation("slow-exit-on-signal", format!("terminating signal at {} ms while the daemon was waiting (last job ended at {} ms), but it exited at {} ms", ms(term_ns), ms(e), ms(exit_ns)));
            }
            ctx.count("probe.terminating_signal_while_waiting");
        }
        _ => ctx.count("probe.terminating_signal_during_job"),
    }
    let cap_ns = plan.period.max(60) * 1_000_000_000;
    let period_ns = plan.period * 1_000_000_000;
    let mut consecutive = 0usize;
    let mut prev_delay: Option<u64> = None;
    ctx.nontrivial = attempts.len() >= 3;
    if attempts.len() > 33 {
        ctx.count("probe.more_than_33_connection_attempts_in_one_run");
    }
    for i in 1..attempts.len() {
        let Some((end, failed)) = ends[i - 1] else {
            return Verdict::violation("harness-error", format!("attempt #{} has no observed end but attempt #{i} exists", i - 1));
        };
        let gap = attempts[i].saturating_sub(end);
        if attempts[i] < end {
            return Verdict::violation("overlapping-runs", format!("run #{i} started at {} ms before run #{} ended at {} ms", ms(attempts[i]), i - 1, ms(end)));
        }
        if failed {
            consecutive += 1;
            if consecutive == 33 {
                ctx.count("probe.thirty_three_consecutive_failures");
            }
        } else {
            consecutive = 0;
            prev_delay = None;
        }
        // the earliest SIGHUP raised while the daemon waited for run #i, and any raised while job #i-1 ran
        let hup_waiting = obs.raised.iter().find(|(t, s)| *s == Sig::Hup && *t >= end && *t <= attempts[i] && *t > attempts[i - 1]);
        let hup_during = obs.raised.iter().any(|(t, s)| *s == Sig::Hup && *t > attempts[i - 1] && *t < end);
        if hup_during {
            ctx.count("probe.sighup_during_job");
            continue; // an immediate run after the job is legitimate
        }
        if let Some((t, _)) = hup_waiting {
            ctx.count("probe.sighup_while_waiting");
            if attempts[i] != *t {
                return Verdict::violation("sighup-not-immediate", format!("SIGHUP at {} ms while the daemon was waiting (job #{} ended at {} ms), next run started at {} ms", ms(*t), i - 1, ms(end), ms(attempts[i])));
            }
            continue;
        }
        if gap == 0 {
            return Verdict::violation("runs-without-delay", format!("run #{i} started at {} ms, immediately after run #{} ended, without SIGHUP", ms(attempts[i]), i - 1));
        }
        if !failed {
            if gap != period_ns {
                return Verdict::violation("wrong-period-after-success", format!("run #{} succeeded and ended at {} ms; next run at {} ms (gap {} ms, period {} s)", i - 1, ms(end), ms(attempts[i]), ms(gap), plan.period));
            }
            continue;
        }
        ctx.count("probe.retry_after_failure");
        if gap > cap_ns {
            return Verdict::violation("backoff-exceeds-cap", format!("retry delay {} ms after {consecutive} consecutive failure(s) exceeds max(60 s, period {} s)", ms(gap), plan.period));
        }
        if consecutive == 1 && gap != 60_000_000_000 {
            return Verdict::violation("first-retry-not-one-minute", format!("first retry delay is {} ms (period {} s)", ms(gap), plan.period));
        }
        if let Some(p) = prev_delay {
            if gap < p {
                return Verdict::violation("backoff-shrinks", format!("retry delay went from {} ms to {} ms after {consecutive} consecutive failures (period {} s)", ms(p), ms(gap), plan.period));
            }
            if gap == p && p < cap_ns {
                return Verdict::violation("backoff-does-not-grow", format!("retry delay stayed at {} ms below the cap {} ms after {consecutive} consecutive failures (period {} s)", ms(p), ms(cap_ns), plan.period));
            }
        }
        prev_delay = Some(gap);
    }
    Verdict::Pass
}

pub static C19: PropSpec = PropSpec {
    id: "C19",
    simulator: "A-sim",
    level: "exploration",
    runs: |t| if t == Tier::Thorough { 2_000_000 } else { 15_000 },
    enumerated: |t| super::c19_proc::scenarios(t == Tier::Thorough),
    run,
    rule: "enumerated (process part): the agent executable (argument parsing, real signal handlers, real clock) with -f {0, 1, 45, 100, 3600, 86400} against a closed loopback port; -f 0 must make exactly one attempt, not start the loop and exit by itself with a failure status; a daemon must run its first job at once, announce 60 s first and then delays that never shrink, grow while below max(60 s, period) and never exceed it (2-4 failing jobs, each further one started by a real SIGHUP within 10 s), and exit with status 0 within 10 s of a real SIGTERM / SIGINT. seeded: the real Loop::start with a period from {1 s .. 1 day} (below and above the 60 s initial back-off); 2-10 (thorough: 2-16) scripted connection attempts, in one plan of 12 a long outage of 34-80 failing attempts in a row without SIGHUP (succeed against FakeJunos / fail at connect / rpc-error or disconnect at a seeded request / the job panics) with job durations 0 .. 3 periods of virtual time; 0-3 SIGHUPs and a final SIGINT or SIGTERM raised (libc::raise) at seeded virtual instants, while waiting and while a job runs. Oracle over the timeline of connection attempts and job ends: first run at once; after success one period; after the c-th consecutive failure a delay of 60 s first, never shrinking, growing while below the cap, never above max(60 s, period), never zero without SIGHUP; SIGHUP while waiting => run at that instant; SIGINT/SIGTERM while waiting => clean exit at that instant, no later attempt. Non-trivial = at least three attempts; distinct = distinct event-log hash",
    components: &[
        ("agent executable: bin/bgpfu-junos-agent.rs, cli.rs (Frequency parsing, one-shot / daemon selection), task.rs loop with tokio's real signal handlers and the real clock", "real, enumerated scenarios only: target/release/agentbin as a child process"),
        ("junos-agent task.rs (Loop::start, Updater::run), netconf/mod.rs", "real"),
        ("tokio runtime, interval timer, Unix signal driver", "real (current_thread, paused clock)"),
        ("Unix signals", "real: libc::raise on the simulation thread at virtual instants"),
        ("netconf transport / router / IRRd", "stub + models (FakeJunos with scripted attempt outcomes, FakeIrrd)"),
    ],
    assumptions: &[
        "process part: the only timing assumption is that the agent reacts to a signal or finishes a refused connection attempt within 10 s of real time","the k-th signal is raised at k+1 (mod 10) ms of virtual time while every other delay is a multiple of 10 ms, so that a signal never coincides with a timer deadline or with another signal", "nothing is demanded about the moment at which a signal that arrives while a job is running takes effect (only that the daemon exits cleanly in the end)", "job end = the instant of the connection refusal, of the delivery of the first negative reply or EOF, or of the delivery of the positive close-session reply"],
    watchdog_s: 60,
    stuck_is_verdict: false,
    serial: true,
};
