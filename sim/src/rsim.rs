//! R-sim: transport-level simulator.
//!
//! The three receive loops of bgpfu-netconf are tied to concrete types (`TlsStream<TcpStream>`,
//! a russh channel, `ChildStdout`), so they run over real kernel objects — deterministically:
//! client and scripted peer are two tasks of one `current_thread` runtime with a paused clock.
//! The peer writes one chunk (= one TLS record / one SSH CHANNEL_DATA packet / one `write()` on
//! the pipe) and then sleeps 1 ms of virtual time; tokio advances a paused clock only when no
//! task is runnable and an epoll pass woke nobody, i.e. after the client has consumed the chunk.
//! A heartbeat task (1 ms virtual sleep) feeds the worker's real-time watchdog: when the client
//! spins — inside one poll, or by being re-polled for ever, which freezes the paused clock — the
//! heartbeat stops and the worker reports the run as a spin and exits.

use std::os::fd::{AsRawFd, FromRawFd, OwnedFd};
use std::sync::atomic::AtomicU64;
use std::sync::{Arc, Mutex};
use std::time::Duration;

use async_trait::async_trait;
use netconf::message::rpc::operation::{Builder, Get};
use netconf::Session;
use tokio::io::{AsyncReadExt, AsyncWriteExt};
use tokio::net::TcpListener;
use tokio::sync::Notify;

use crate::core::{beat, Ctx};

/// kept for the driver's diagnostics
pub static POLLS: AtomicU64 = AtomicU64::new(0);

static SCENARIO: Mutex<String> = Mutex::new(String::new());

pub fn set_scenario(s: &str) {
    *SCENARIO.lock().unwrap() = s.to_string();
}

pub fn current_scenario() -> String {
    SCENARIO.lock().map(|s| s.clone()).unwrap_or_default()
}

pub const MARKER: &[u8] = b"]]>]]>";
pub const NS: &str = "urn:ietf:params:xml:ns:netconf:base:1.0";
pub const PKI: &str = "/verif/fixtures/pki";
pub const SSH_PASSWORD: &str = "s3cr3t pass'\"";

#[derive(Clone, Copy, Debug, PartialEq, Eq)]
pub enum Kind {
    Tls,
    Ssh,
    Local,
}

impl Kind {
    pub fn name(self) -> &'static str {
        match self {
            Self::Tls => "tls",
            Self::Ssh => "ssh",
            Self::Local => "local",
        }
    }
}

#[derive(Clone, Copy, Debug, PartialEq, Eq)]
pub enum CloseKind {
    /// TLS close_notify followed by FIN / SSH channel EOF then close / close of the pipe (EOF on stdout)
    Clean,
    /// TCP FIN without TLS close_notify / SSH channel close without EOF / (local: same as Clean)
    HalfClean,
    /// TCP RST (SO_LINGER 0) / local: kill the child and close
    Abort,
    /// SSH only: channel EOF without close
    SshEofOnly,
    /// SSH only: the server's TCP connection is shut down (FIN) without any SSH-level message
    SshDisconnect,
}

#[derive(Clone, Debug)]
pub enum Step {
    /// one unit of delivery
    Chunk(Vec<u8>),
    /// wait until the client has sent this many complete messages (hello = 1)
    WaitClientMessages(usize),
    /// stay silent for this long (virtual)
    SleepMs(u64),
    /// let this much REAL time pass (the event loop is then polled once): for effects that reach the
    /// harness through the kernel in real time, such as the death of a helper process the client killed
    RealPauseMs(u64),
    /// SSH only (elsewhere nothing happens): an extended-data packet (stderr of the subsystem) on the
    /// netconf channel; it is not part of the NETCONF byte stream
    SshStderr(Vec<u8>),
    /// record the virtual instant at which reply k has been completely written
    Mark(usize),
    /// behave like a conforming RFC 6242 server after the hello exchange: if both hellos advertise
    /// :base:1.1 expect and send chunked framing, else end-of-message framing; a request in the
    /// other framing makes the server terminate the session
    Rfc6242Server { server_has_11: bool },
    Close(CloseKind),
    /// the client abandons (drops) the reply future of request k now, at whatever suspension point
    /// it is in (C18 over the real transports)
    DropRequest(usize),
}

#[derive(Clone, Debug)]
pub struct Scenario {
    pub kind: Kind,
    pub steps: Vec<Step>,
    /// pipelined get requests issued after establishment
    pub requests: usize,
    /// one more request issued after all others resolved (C07: "every subsequent operation")
    pub extra_request: bool,
    pub label: String,
    /// wrong password / untrusted setup (C20)
    pub bad_credentials: bool,
    /// the SSH password the server accepts and (unless bad_credentials) the client presents
    pub password: String,
    /// request #0 carries a subtree filter with this many bytes of text (0 = plain <get/>)
    pub big_request: usize,
    /// TLS and SSH: the TCP connection has small socket buffers (SO_SNDBUF of the client and SO_RCVBUF of
    /// the peer = 4 KiB); TLS: the peer also reads slowly (4 KiB per virtual millisecond), so that a
    /// large request meets a full socket
    pub slow_peer: bool,
    /// SSH only: what the server does while the connection is being set up
    pub ssh_setup: SshSetup,
    /// after issuing its requests the client calls close() and drops the reply future it returns
    /// (which owns the session) without polling it; the outstanding requests are then awaited
    pub abandon_close: bool,
    /// when everything else is done the client closes the session: close() and the reply future it returns
    /// are awaited; the result goes to `Outcome.close`
    pub final_close: bool,
}

/// SSH server behaviour before the NETCONF subsystem runs
#[derive(Clone, Copy, Debug, Default, PartialEq, Eq)]
pub struct SshSetup {
    /// the answer to the password request is held back for this long (virtual)
    pub auth_delay_ms: u64,
    /// instead of confirming the "netconf" subsystem request the server goes away
    pub at_subsystem: Option<SetupClose>,
}

#[derive(Clone, Copy, Debug, PartialEq, Eq)]
pub enum SetupClose {
    /// CHANNEL_CLOSE for the session channel, the connection stays up
    ChannelClose,
    /// CHANNEL_EOF then CHANNEL_CLOSE
    ChannelEofClose,
    /// the server's side of the connection ends (the handler fails, russh drops the TCP connection)
    Disconnect,
}

#[derive(Clone, Debug, PartialEq, Eq)]
pub enum Res {
    Ok(String),
    Err(String),
    /// still pending 5 virtual seconds after it was awaited
    Hang,
}

#[derive(Clone, Debug, Default)]
pub struct Outcome {
    pub establish: Option<Res>,
    /// per request: result and the virtual time (ns) at which it resolved
    pub results: Vec<Res>,
    pub resolved_ns: Vec<u64>,
    /// (reply index, virtual ns) of every Step::Mark
    pub marks: Vec<(usize, u64)>,
    pub extra: Option<Res>,
    /// result of Session::close() (request sent and reply awaited), if the scenario asks for it
    pub close: Option<Res>,
    pub virt_ns: u64,
    pub client_messages: Vec<String>,
    pub harness_error: Option<String>,
    /// per request: handle of the task awaiting its reply future
    pub abort: Vec<Option<Arc<tokio::task::AbortHandle>>>,
    /// requests whose reply future was dropped by a Step::DropRequest while still pending
    pub dropped: Vec<usize>,
}

pub fn hello_msg(caps: &[&str]) -> Vec<u8> {
    crate::ssim::hello_with(caps, "42")
}

pub fn reply_msg(id: usize, len: usize) -> Vec<u8> {
    // a reply of exactly `len` bytes (including the delimiter) when len is large enough
    let head = format!("<rpc-reply message-id=\"{id}\" xmlns=\"{NS}\"><data><t xmlns=\"urn:x\">TAG-{id}-");
    let tail = "</t></data></rpc-reply>]]>]]>";
    let fill = len.saturating_sub(head.len() + tail.len());
    format!("{head}{}{tail}", "x".repeat(fill)).into_bytes()
}

struct PeerShared {
    inbuf: Vec<u8>,
    messages: Vec<String>,
    /// every byte received, unframed
    raw: Vec<u8>,
}

type Ps = Arc<(Mutex<PeerShared>, Notify)>;

fn feed(ps: &Ps, data: &[u8]) {
    if std::env::var_os("VERIF_DEBUG_FEED").is_some() {
        eprintln!("feed {} bytes: {:?}", data.len(), String::from_utf8_lossy(&data[..data.len().min(80)]));
    }
    let mut g = ps.0.lock().unwrap();
    g.raw.extend_from_slice(data);
    g.inbuf.extend_from_slice(data);
    while let Some(p) = crate::ssim::find(&g.inbuf, MARKER) {
        let m: Vec<u8> = g.inbuf.drain(..p + MARKER.len()).collect();
        g.messages.push(String::from_utf8_lossy(&m[..p]).into_owned());
    }
    drop(g);
    ps.1.notify_waiters();
}

/// Wait until the client has sent `n` complete messages. For a short span of real time the wait
/// keeps yielding, which keeps the paused clock from advancing while the kernel may still be
/// delivering the client's bytes; after that it waits in virtual time, so that a client that will
/// never send (because it is stuck, which is what the run is about) still sees its timeouts fire.
async fn wait_messages(ps: &Ps, n: usize) -> Result<(), String> {
    let t0 = std::time::Instant::now();
    let mut spins = 0u32;
    while t0.elapsed() < Duration::from_millis(20) {
        if ps.0.lock().unwrap().messages.len() >= n {
            return Ok(());
        }
        spins += 1;
        if spins % 64 == 0 {
            std::thread::sleep(Duration::from_micros(50));
        }
        tokio::task::yield_now().await;
    }
    loop {
        let notified = ps.1.notified();
        tokio::pin!(notified);
        notified.as_mut().enable();
        if ps.0.lock().unwrap().messages.len() >= n {
            return Ok(());
        }
        notified.await;
    }
}

/// The client code under test does not set TCP_NODELAY; with Nagle's algorithm the kernel would
/// hold back its second small write for up to a delayed-ACK interval of *real* time, during which
/// the paused clock races ahead. The harness therefore finds the client's socket among its own
/// descriptors (local address == the accepted connection's peer address) and disables Nagle.
fn set_client_nodelay(client_addr: std::net::SocketAddr, small_sndbuf: bool) {
    let Ok(dir) = std::fs::read_dir("/proc/self/fd") else { return };
    for e in dir.flatten() {
        let Ok(fd) = e.file_name().to_string_lossy().parse::<i32>() else { continue };
        // SAFETY: getsockname/setsockopt on a descriptor of this process; failures are ignored
        unsafe {
            let mut ss: libc::sockaddr_in = std::mem::zeroed();
            let mut len = std::mem::size_of::<libc::sockaddr_in>() as libc::socklen_t;
            if libc::getsockname(fd, std::ptr::addr_of_mut!(ss).cast(), &mut len) != 0 || i32::from(ss.sin_family) != libc::AF_INET {
                continue;
            }
            let port = u16::from_be(ss.sin_port);
            let ip = std::net::Ipv4Addr::from(u32::from_be(ss.sin_addr.s_addr));
            if std::net::SocketAddr::from((ip, port)) == client_addr {
                let one: libc::c_int = 1;
                libc::setsockopt(fd, libc::IPPROTO_TCP, libc::TCP_NODELAY, std::ptr::addr_of!(one).cast(), 4);
                libc::setsockopt(fd, libc::IPPROTO_TCP, libc::TCP_QUICKACK, std::ptr::addr_of!(one).cast(), 4);
                if small_sndbuf {
                    let sz: libc::c_int = 4096;
                    libc::setsockopt(fd, libc::SOL_SOCKET, libc::SO_SNDBUF, std::ptr::addr_of!(sz).cast(), 4);
                }
            }
        }
    }
}

/// SO_RCVBUF = 4 KiB on a listening socket (inherited by the accepted connection)
fn small_rcvbuf(fd: i32) {
    let sz: libc::c_int = 4096;
    // SAFETY: setsockopt on a descriptor of this process; failure is ignored
    unsafe {
        libc::setsockopt(fd, libc::SOL_SOCKET, libc::SO_RCVBUF, std::ptr::addr_of!(sz).cast(), 4);
    }
}

fn load_pem(name: &str) -> Vec<u8> {
    std::fs::read(format!("{PKI}/{name}")).unwrap_or_else(|e| panic!("fixture {name}: {e}"))
}

pub fn client_pki() -> (rustls_pki_types::CertificateDer<'static>, rustls_pki_types::CertificateDer<'static>, rustls_pki_types::PrivateKeyDer<'static>) {
    let one = |name: &str| match rustls_pemfile::read_one_from_slice(&load_pem(name)).expect("pem").expect("pem item").0 {
        rustls_pemfile::Item::X509Certificate(c) => c,
        _ => panic!("not a certificate"),
    };
    let key = match rustls_pemfile::read_one_from_slice(&load_pem("client.key")).expect("pem").expect("pem item").0 {
        rustls_pemfile::Item::Sec1Key(k) => k.into(),
        rustls_pemfile::Item::Pkcs8Key(k) => k.into(),
        rustls_pemfile::Item::Pkcs1Key(k) => k.into(),
        _ => panic!("not a key"),
    };
    (one("ca.crt"), one("client.crt"), key)
}

pub fn tls_acceptor() -> tokio_rustls::TlsAcceptor {
    use tokio_rustls::rustls::{server::WebPkiClientVerifier, RootCertStore, ServerConfig};
    let certs: Vec<_> = rustls_pemfile::certs(&mut &load_pem("server.crt")[..]).collect::<Result<_, _>>().expect("server cert");
    let key = rustls_pemfile::private_key(&mut &load_pem("server.key")[..]).expect("key").expect("server key");
    let mut roots = RootCertStore::empty();
    for c in rustls_pemfile::certs(&mut &load_pem("ca.crt")[..]) {
        roots.add(c.expect("ca")).expect("add ca");
    }
    let verifier = WebPkiClientVerifier::builder(Arc::new(roots)).build().expect("verifier");
    let cfg = ServerConfig::builder().with_client_cert_verifier(verifier).with_single_cert(certs, key).expect("server config");
    tokio_rustls::TlsAcceptor::from(Arc::new(cfg))
}

// ---------------------------------------------------------------------------------------------
// SSH peer
// ---------------------------------------------------------------------------------------------

#[derive(Default)]
struct SshShared {
    chan: Option<(russh::ChannelId, russh::server::Handle)>,
    subsystem: bool,
}

#[derive(Clone)]
struct SshH {
    setup: SshSetup,
    password: String,
    ps: Ps,
    sh: Arc<Mutex<SshShared>>,
    keep: Arc<Mutex<Vec<russh::Channel<russh::server::Msg>>>>,
}

#[async_trait]
impl russh::server::Handler for SshH {
    type Error = anyhow::Error;
    async fn auth_password(self, _user: &str, password: &str) -> Result<(Self, russh::server::Auth), Self::Error> {
        if self.setup.auth_delay_ms > 0 {
            tokio::time::sleep(Duration::from_millis(self.setup.auth_delay_ms)).await;
        }
        Ok(if password == self.password { (self, russh::server::Auth::Accept) } else { (self, russh::server::Auth::Reject { proceed_with_methods: None }) })
    }
    async fn channel_open_session(self, channel: russh::Channel<russh::server::Msg>, session: russh::server::Session) -> Result<(Self, bool, russh::server::Session), Self::Error> {
        self.sh.lock().unwrap().chan = Some((channel.id(), session.handle()));
        self.keep.lock().unwrap().push(channel);
        Ok((self, true, session))
    }
    async fn subsystem_request(self, channel: russh::ChannelId, _name: &str, mut session: russh::server::Session) -> Result<(Self, russh::server::Session), Self::Error> {
        match self.setup.at_subsystem {
            None => {}
            Some(SetupClose::ChannelClose) => {
                session.close(channel);
                return Ok((self, session));
            }
            Some(SetupClose::ChannelEofClose) => {
                session.eof(channel);
                session.close(channel);
                return Ok((self, session));
            }
            Some(SetupClose::Disconnect) => return Err(anyhow::anyhow!("the server goes away before answering the subsystem request")),
        }
        session.channel_success(channel);
        self.sh.lock().unwrap().subsystem = true;
        self.ps.1.notify_waiters();
        Ok((self, session))
    }
    async fn data(self, _channel: russh::ChannelId, data: &[u8], session: russh::server::Session) -> Result<(Self, russh::server::Session), Self::Error> {
        feed(&self.ps, data);
        Ok((self, session))
    }
}

// ---------------------------------------------------------------------------------------------
// local peer: fakecli hands its stdin/stdout to us
// ---------------------------------------------------------------------------------------------

pub fn fakecli_path() -> std::path::PathBuf {
    std::env::current_exe().expect("exe").with_file_name("fakecli")
}

fn recv_fds(sock: &std::os::unix::net::UnixStream) -> std::io::Result<(OwnedFd, OwnedFd, i32)> {
    // one message: payload = child's pid (4 bytes), ancillary = two descriptors
    let mut payload = [0u8; 4];
    let mut iov = libc::iovec { iov_base: payload.as_mut_ptr().cast(), iov_len: 4 };
    let mut cbuf = [0u8; 64];
    let mut msg: libc::msghdr = unsafe { std::mem::zeroed() };
    msg.msg_iov = &mut iov;
    msg.msg_iovlen = 1;
    msg.msg_control = cbuf.as_mut_ptr().cast();
    msg.msg_controllen = cbuf.len();
    // SAFETY: msg points to valid buffers for the duration of the call
    let n = unsafe { libc::recvmsg(sock.as_raw_fd(), &mut msg, 0) };
    if n < 0 {
        return Err(std::io::Error::last_os_error());
    }
    // SAFETY: walking the control buffer the kernel filled in
    unsafe {
        let cmsg = libc::CMSG_FIRSTHDR(&msg);
        if cmsg.is_null() || (*cmsg).cmsg_type != libc::SCM_RIGHTS {
            return Err(std::io::Error::other("no descriptors received from fakecli"));
        }
        let data = libc::CMSG_DATA(cmsg).cast::<i32>();
        let a = std::ptr::read_unaligned(data);
        let b = std::ptr::read_unaligned(data.add(1));
        Ok((OwnedFd::from_raw_fd(a), OwnedFd::from_raw_fd(b), i32::from_le_bytes(payload)))
    }
}

// ---------------------------------------------------------------------------------------------
// run one scenario
// ---------------------------------------------------------------------------------------------

enum PeerIo {
    Tls(tokio::io::WriteHalf<tokio_rustls::server::TlsStream<tokio::net::TcpStream>>, i32),
    Ssh(russh::ChannelId, russh::server::Handle, i32),
    Local(Option<tokio::net::unix::pipe::Sender>, i32),
}

async fn play(steps: Vec<Step>, mut io: PeerIo, ps: Ps, out: Arc<Mutex<Outcome>>, epoch: tokio::time::Instant) -> Result<(), String> {
    for step in steps {
        beat();
        if let PeerIo::Local(w, _) = &mut io {
            if CHILD_DEAD.with(std::cell::Cell::get) {
                if w.is_some() {
                    out.lock().unwrap().client_messages.push("<peer: the cli process was killed by the client; its pipe ends are closed>".into());
                }
                *w = None;
                if matches!(step, Step::Chunk(_)) {
                    continue;
                }
            }
        }
        match step {
            Step::Mark(k) => {
                let t = tokio::time::Instant::now().duration_since(epoch).as_nanos() as u64;
                out.lock().unwrap().marks.push((k, t));
            }
            Step::WaitClientMessages(n) => wait_messages(&ps, n).await?,
            Step::Rfc6242Server { server_has_11 } => {
                wait_messages(&ps, 1).await?;
                let client_has_11 = ps.0.lock().unwrap().messages[0].contains("urn:ietf:params:netconf:base:1.1");
                let chunked = server_has_11 && client_has_11;
                // wait for one request in either framing
                let hello_len = {
                    let g = ps.0.lock().unwrap();
                    crate::ssim::find(&g.raw, MARKER).map_or(0, |p| p + MARKER.len())
                };
                let request: (bool, String) = loop {
                    let notified = ps.1.notified();
                    tokio::pin!(notified);
                    notified.as_mut().enable();
                    {
                        let g = ps.0.lock().unwrap();
                        let tail = &g.raw[hello_len.min(g.raw.len())..];
                        if tail.starts_with(b"\n#") {
                            if let Some(e) = crate::ssim::find(tail, b"\n##\n") {
                                break (true, String::from_utf8_lossy(&tail[..e]).into_owned());
                            }
                        } else if g.messages.len() >= 2 {
                            break (false, g.messages[1].clone());
                        }
                    }
                    notified.await;
                };
                let id = request.1.split("message-id=\"").nth(1).and_then(|s| s.split('"').next()).unwrap_or("0").to_string();
                let body = format!("<rpc-reply message-id=\"{id}\" xmlns=\"{NS}\"><data><t xmlns=\"urn:x\">TAG-1-framing</t></data></rpc-reply>");
                out.lock().unwrap().client_messages.push(format!("<server: both advertise 1.1 = {chunked}; request arrived with {} framing>", if request.0 { "chunked" } else { "end-of-message" }));
                let reply: Option<Vec<u8>> = match (chunked, request.0) {
                    (true, true) => Some(format!("\n#{}\n{body}\n##\n", body.len()).into_bytes()),
                    (false, false) => Some(format!("{body}]]>]]>").into_bytes()),
                    _ => None,
                };
                match reply {
                    Some(data) => match &mut io {
                        PeerIo::Tls(w, _) => {
                            w.write_all(&data).await.map_err(|e| format!("peer write: {e}"))?;
                            w.flush().await.map_err(|e| format!("peer flush: {e}"))?;
                        }
                        PeerIo::Ssh(chan, handle, _) => {
                            handle.data(*chan, russh::CryptoVec::from_slice(&data)).await.map_err(|_| "peer ssh data failed".to_string())?;
                        }
                        PeerIo::Local(Some(w), _) => {
                            w.write_all(&data).await.map_err(|e| format!("peer write: {e}"))?;
                        }
                        PeerIo::Local(None, _) => {}
                    },
                    None => {
                        // RFC 6242 section 4.2: a framing error terminates the session
                        match &mut io {
                            PeerIo::Tls(w, _) => {
                                let _ = w.shutdown().await;
                            }
                            PeerIo::Ssh(chan, handle, _) => {
                                let _ = handle.eof(*chan).await;
                                let _ = handle.close(*chan).await;
                            }
                            PeerIo::Local(w, _) => *w = None,
                        }
                    }
                }
                tokio::time::sleep(Duration::from_millis(1)).await;
            }
            Step::SleepMs(ms) => tokio::time::sleep(Duration::from_millis(ms)).await,
            Step::RealPauseMs(ms) => {
                std::thread::sleep(Duration::from_millis(ms));
                tokio::time::sleep(Duration::from_millis(1)).await;
                tokio::task::yield_now().await;
            }
            Step::SshStderr(data) => {
                if let PeerIo::Ssh(chan, handle, _) = &mut io {
                    handle.extended_data(*chan, 1, russh::CryptoVec::from_slice(&data)).await.map_err(|_| "peer ssh data failed".to_string())?;
                    tokio::time::sleep(Duration::from_millis(1)).await;
                }
            }
            Step::DropRequest(k) => {
                let mut o = out.lock().unwrap();
                let pending = matches!(o.results.get(k), Some(Res::Hang));
                if let Some(Some(h)) = o.abort.get(k) {
                    if pending && !h.is_finished() {
                        h.abort();
                        o.dropped.push(k);
                    }
                }
            }
            Step::Chunk(data) => {
                match &mut io {
                    PeerIo::Tls(w, _) => {
                        w.write_all(&data).await.map_err(|e| format!("peer write: {e}"))?;
                        w.flush().await.map_err(|e| format!("peer flush: {e}"))?;
                    }
                    PeerIo::Ssh(chan, handle, _) => {
                        handle.data(*chan, russh::CryptoVec::from_slice(&data)).await.map_err(|_| "peer ssh data failed".to_string())?;
                    }
                    PeerIo::Local(Some(w), _) => {
                        w.write_all(&data).await.map_err(|e| format!("peer write: {e}"))?;
                    }
                    PeerIo::Local(None, _) => return Err("peer pipe already closed".into()),
                }
                // lock-step: the clock only moves once the client has consumed the chunk and blocked again
                tokio::time::sleep(Duration::from_millis(1)).await;
            }
            Step::Close(kind) => {
                match &mut io {
                    PeerIo::Tls(w, fd) => match kind {
                        CloseKind::Clean => {
                            let _ = w.shutdown().await;
                        }
                        CloseKind::HalfClean => {
                            // FIN without close_notify
                            // SAFETY: fd is the accepted socket, still open (held by the split halves)
                            unsafe {
                                libc::shutdown(*fd, libc::SHUT_WR);
                            }
                        }
                        _ => {
                            let lg = libc::linger { l_onoff: 1, l_linger: 0 };
                            // SAFETY: valid fd and option struct; SO_LINGER 0 + shutdown => RST on close
                            unsafe {
                                libc::setsockopt(*fd, libc::SOL_SOCKET, libc::SO_LINGER, std::ptr::addr_of!(lg).cast(), std::mem::size_of::<libc::linger>() as u32);
                                libc::shutdown(*fd, libc::SHUT_RDWR);
                            }
                        }
                    },
                    PeerIo::Ssh(chan, handle, fd) => match kind {
                        CloseKind::Clean => {
                            let _ = handle.eof(*chan).await;
                            let _ = handle.close(*chan).await;
                        }
                        CloseKind::HalfClean => {
                            let _ = handle.close(*chan).await;
                        }
                        CloseKind::SshEofOnly => {
                            let _ = handle.eof(*chan).await;
                        }
                        CloseKind::SshDisconnect => {
                            // the server goes away without any SSH-level message: TCP FIN
                            // SAFETY: fd of the accepted socket
                            unsafe {
                                libc::shutdown(*fd, libc::SHUT_WR);
                            }
                        }
                        CloseKind::Abort => {
                            let lg = libc::linger { l_onoff: 1, l_linger: 0 };
                            // SAFETY: fd of the accepted socket; SO_LINGER 0 + shutdown => RST
                            unsafe {
                                libc::setsockopt(*fd, libc::SOL_SOCKET, libc::SO_LINGER, std::ptr::addr_of!(lg).cast(), std::mem::size_of::<libc::linger>() as u32);
                                libc::shutdown(*fd, libc::SHUT_RDWR);
                            }
                        }
                    },
                    PeerIo::Local(w, pid) => {
                        if kind == CloseKind::Abort && *pid > 0 {
                            // SAFETY: our own child's child (fakecli), identified by the pid it sent
                            unsafe {
                                libc::kill(*pid, libc::SIGKILL);
                            }
                        }
                        *w = None;
                    }
                }
                tokio::time::sleep(Duration::from_millis(1)).await;
            }
        }
    }
    // keep the connection (if still open) alive and silent
    tokio::time::sleep(Duration::from_secs(3600)).await;
    drop(io);
    Ok(())
}

fn res_of<T>(r: Result<Result<T, netconf::Error>, tokio::time::error::Elapsed>, show: impl Fn(T) -> String) -> Res {
    match r {
        Err(_) => Res::Hang,
        Ok(Err(e)) => Res::Err(format!("{e:?}").chars().take(200).collect()),
        Ok(Ok(v)) => Res::Ok(show(v)),
    }
}

const WAIT: Duration = Duration::from_secs(5);
/// a call is only declared hung when it is still pending after WAIT of virtual time AND this much
/// real time: the paused clock runs ahead whenever every task is idle, however briefly the kernel
/// takes to hand over bytes or an EOF
const REAL_FLOOR: Duration = Duration::from_millis(300);

/// `tokio::time::timeout(WAIT, fut)` with the real-time floor
async fn patient<F: std::future::Future>(fut: F) -> Result<F::Output, tokio::time::error::Elapsed> {
    patient_for(Duration::ZERO, fut).await
}

/// like `patient`, for a call that the scenario itself delays by `extra` of virtual time
async fn patient_for<F: std::future::Future>(extra: Duration, fut: F) -> Result<F::Output, tokio::time::error::Elapsed> {
    tokio::pin!(fut);
    let real0 = std::time::Instant::now();
    loop {
        match tokio::time::timeout(WAIT + extra, &mut fut).await {
            Ok(v) => return Ok(v),
            Err(e) if real0.elapsed() >= REAL_FLOOR => return Err(e),
            Err(_) => {
                // give the kernel a moment of real time, then keep waiting (virtual time goes on)
                std::thread::sleep(Duration::from_millis(2));
            }
        }
    }
}

static EPOCH: Mutex<Option<tokio::time::Instant>> = Mutex::new(None);

thread_local! {
    /// local transport: the helper process standing in for `cli` has died (it was killed): like any
    /// dead process it no longer holds its pipe ends, so the scripted peer closes the copies it was handed
    static CHILD_DEAD: std::cell::Cell<bool> = const { std::cell::Cell::new(false) };
}

async fn client_workload<T>(session: Result<Session<T>, tokio::time::error::Elapsed>, sc: &Scenario, out: &Arc<Mutex<Outcome>>)
where
    T: netconf::transport::Transport + 'static,
    T::RecvHandle: 'static,
    T::SendHandle: 'static,
{
    let mut s = match session {
        Err(_) => {
            out.lock().unwrap().establish = Some(Res::Hang);
            return;
        }
        Ok(s) => s,
    };
    out.lock().unwrap().establish = Some(Res::Ok(s.context().session_id().to_string()));
    // every reply future is awaited in a task of its own; the instant at which it resolves is recorded
    let epoch = *EPOCH.lock().unwrap();
    let mut tasks = Vec::new();
    for k in 0..sc.requests {
        {
            let mut o = out.lock().unwrap();
            o.results.push(Res::Hang);
            o.resolved_ns.push(0);
        }
        let set = {
            let out = out.clone();
            move |r: Res| {
                let mut o = out.lock().unwrap();
                o.results[k] = r;
                o.resolved_ns[k] = epoch.map_or(0, |e| tokio::time::Instant::now().duration_since(e).as_nanos() as u64);
            }
        };
        let filter = (k == 0 && sc.big_request > 0).then(|| netconf::message::rpc::operation::Filter::Subtree(format!("<top xmlns=\"urn:x\"><big>{}</big></top>", "0123456789abcdef".repeat(sc.big_request / 16 + 1))));
        match patient(s.rpc::<Get, _>(|b| b.filter(filter).finish())).await {
            Ok(Ok(f)) => {
                let t = tokio::spawn(async move {
                    let r = res_of(patient(f).await, |v| v.chars().take(60).collect());
                    set(r);
                });
                out.lock().unwrap().abort.push(Some(Arc::new(t.abort_handle())));
                tasks.push(t);
            }
            Ok(Err(e)) => {
                out.lock().unwrap().abort.push(None);
                set(Res::Err(format!("send: {e:?}").chars().take(200).collect()));
            }
            Err(_) => {
                out.lock().unwrap().abort.push(None);
                set(Res::Hang);
            }
        }
    }
    if sc.abandon_close {
        match patient(s.close()).await {
            Ok(Ok(reply)) => {
                drop(reply);
                out.lock().unwrap().client_messages.push("<client: close() returned, its reply future was dropped unpolled>".into());
            }
            Ok(Err(e)) => out.lock().unwrap().client_messages.push(format!("<client: close() failed: {e:?}>")),
            Err(_) => out.lock().unwrap().client_messages.push("<client: close() still pending after 5 s>".into()),
        }
        for t in tasks {
            let _ = t.await;
        }
        return;
    }
    for t in tasks {
        let _ = t.await;
    }
    if sc.extra_request {
        let r = match patient(s.rpc::<Get, _>(|b| b.finish())).await {
            Ok(Ok(f)) => res_of(patient(f).await, |v| v.chars().take(60).collect()),
            Ok(Err(e)) => Res::Err(format!("send: {e:?}").chars().take(200).collect()),
            Err(_) => Res::Hang,
        };
        out.lock().unwrap().extra = Some(r);
    }
    if sc.final_close {
        let r = match patient(s.close()).await {
            Ok(Ok(reply)) => res_of(patient(reply).await, |()| "closed".to_string()),
            Ok(Err(e)) => Res::Err(format!("send: {e:?}").chars().take(200).collect()),
            Err(_) => Res::Hang,
        };
        out.lock().unwrap().close = Some(r);
    }
}

pub fn run_scenario(ctx: &mut Ctx, sc: &Scenario) -> Outcome {
    set_scenario(&format!("{}/{}", sc.kind.name(), sc.label));
    let seed = ctx.pick(1 << 30) as u64;
    let rt = crate::asim::runtime(seed);
    let out: Arc<Mutex<Outcome>> = Arc::default();
    let ps: Ps = Arc::new((Mutex::new(PeerShared { inbuf: Vec::new(), messages: Vec::new(), raw: Vec::new() }), Notify::new()));
    let sc2 = sc.clone();
    let (out2, ps2) = (out.clone(), ps.clone());
    rt.block_on(async move {
        let epoch = tokio::time::Instant::now();
        *EPOCH.lock().unwrap() = Some(epoch);
        let heartbeat = tokio::spawn(async {
            loop {
                beat();
                tokio::time::sleep(Duration::from_millis(1)).await;
            }
        });
        let sc = sc2;
        let steps = sc.steps.clone();
        let fail = |out: &Arc<Mutex<Outcome>>, e: String| out.lock().unwrap().harness_error = Some(e);
        match sc.kind {
            Kind::Tls => {
                let listener = TcpListener::bind("127.0.0.1:0").await.expect("bind");
                let addr = listener.local_addr().expect("addr");
                let slow_peer = sc.slow_peer;
                if slow_peer {
                    small_rcvbuf(listener.as_raw_fd());
                }
                let acceptor = tls_acceptor();
                let ps3 = ps2.clone();
                let out3 = out2.clone();
                let peer = tokio::spawn(async move {
                    let (tcp, client_addr) = listener.accept().await.map_err(|e| e.to_string())?;
                    tcp.set_nodelay(true).ok();
                    set_client_nodelay(client_addr, slow_peer);
                    let fd = tcp.as_raw_fd();
                    let tls = match acceptor.accept(tcp).await {
                        Ok(t) => t,
                        Err(e) => {
                            out3.lock().unwrap().client_messages.push(format!("<tls handshake refused by peer: {e}>"));
                            return Ok(());
                        }
                    };
                    let (mut r, w) = tokio::io::split(tls);
                    let ps4 = ps3.clone();
                    let out4 = out3.clone();
                    let reader = tokio::spawn(async move {
                        let mut buf = [0u8; 4096];
                        loop {
                            match r.read(&mut buf).await {
                                Ok(0) => break,
                                Err(e) => {
                                    if std::env::var_os("VERIF_LIVE").is_some() {
                                        out4.lock().unwrap().client_messages.push(format!("<peer reader error: {e}>"));
                                    }
                                    break;
                                }
                                Ok(n) => feed(&ps4, &buf[..n]),
                            }
                            if slow_peer {
                                tokio::time::sleep(Duration::from_millis(1)).await;
                            }
                        }
                    });
                    let r = play(steps, PeerIo::Tls(w, fd), ps3, out3.clone(), epoch).await;
                    reader.abort();
                    r
                });
                let (ca, cert, key) = client_pki();
                let (cert, key) = if sc.bad_credentials {
                    // present the server's certificate chain with the client's key: handshake must fail
                    (ca.clone(), key)
                } else {
                    (cert, key)
                };
                let session = patient(Session::tls(addr, "localhost", ca, cert, key)).await;
                match session {
                    Ok(Err(e)) => out2.lock().unwrap().establish = Some(Res::Err(format!("{e:?}").chars().take(200).collect())),
                    Ok(Ok(s)) => client_workload(Ok(s), &sc, &out2).await,
                    Err(e) => client_workload::<netconf::transport::Tls>(Err(e), &sc, &out2).await,
                }
                peer.abort();
                if let Ok(Err(e)) = peer.await {
                    if !e.contains("peer write") && !e.contains("peer flush") {
                        fail(&out2, e);
                    }
                }
            }
            Kind::Ssh => {
                let listener = TcpListener::bind("127.0.0.1:0").await.expect("bind");
                let addr = listener.local_addr().expect("addr");
                let slow_peer = sc.slow_peer;
                if slow_peer {
                    small_rcvbuf(listener.as_raw_fd());
                }
                let mut cfg = russh::server::Config::default();
                cfg.keys.push(russh_keys::key::KeyPair::generate_ed25519().expect("host key"));
                cfg.auth_rejection_time = Duration::from_millis(10);
                cfg.auth_rejection_time_initial = Some(Duration::from_millis(0));
                let cfg = Arc::new(cfg);
                let h = SshH { setup: sc.ssh_setup, password: sc.password.clone(), ps: ps2.clone(), sh: Arc::default(), keep: Arc::default() };
                let h2 = h.clone();
                let ps3 = ps2.clone();
                let out3 = out2.clone();
                let peer = tokio::spawn(async move {
                    let (tcp, client_addr) = listener.accept().await.map_err(|e| e.to_string())?;
                    tcp.set_nodelay(true).ok();
                    set_client_nodelay(client_addr, slow_peer);
                    let fd = tcp.as_raw_fd();
                    let running = russh::server::run_stream(cfg, tcp, h2.clone()).await.map_err(|e| e.to_string())?;
                    let pump = tokio::spawn(running);
                    // wait for the netconf subsystem
                    let (chan, handle) = loop {
                        let notified = ps3.1.notified();
                        tokio::pin!(notified);
                        notified.as_mut().enable();
                        {
                            let g = h2.sh.lock().unwrap();
                            if g.subsystem {
                                if let Some(c) = g.chan.clone() {
                                    break c;
                                }
                            }
                        }
                        notified.await;
                    };
                    let r = play(steps, PeerIo::Ssh(chan, handle, fd), ps3, out3.clone(), epoch).await;
                    pump.abort();
                    r
                });
                let wrong = format!("wrong-{}", sc.password);
                let password: &str = if sc.bad_credentials { &wrong } else { &sc.password };
                let session = patient_for(Duration::from_millis(sc.ssh_setup.auth_delay_ms), Session::ssh(addr, "operator".to_string(), password.parse().expect("infallible"))).await;
                match session {
                    Ok(Err(e)) => out2.lock().unwrap().establish = Some(Res::Err(format!("{e:?}").chars().take(200).collect())),
                    Ok(Ok(s)) => client_workload(Ok(s), &sc, &out2).await,
                    Err(e) => client_workload::<netconf::transport::Ssh>(Err(e), &sc, &out2).await,
                }
                peer.abort();
                if let Ok(Err(e)) = peer.await {
                    if !e.contains("peer ssh data failed") {
                        fail(&out2, e);
                    }
                }
            }
            Kind::Local => {
                // the helper connects back to this listener and passes its stdin/stdout
                let dir = std::env::temp_dir().join(format!("bgpfu-dst-{}", std::process::id()));
                let _ = std::fs::create_dir_all(&dir);
                let path = dir.join("fakecli.sock");
                let _ = std::fs::remove_file(&path);
                let listener = std::os::unix::net::UnixListener::bind(&path).expect("bind unix");
                std::env::set_var("VERIF_FAKECLI_SOCK", &path);
                let ps3 = ps2.clone();
                let out3 = out2.clone();
                let cli = fakecli_path();
                let session = patient(Session::verif_junos_local(&cli));
                // the child is spawned synchronously inside the first poll of `session`; accept afterwards
                let accept = async move {
                    // poll in virtual time until the helper has connected (it does so within microseconds of real time)
                    listener.set_nonblocking(true).ok();
                    let sock = loop {
                        match listener.accept() {
                            Ok((s, _)) => break s,
                            Err(e) if e.kind() == std::io::ErrorKind::WouldBlock => {
                                std::thread::sleep(Duration::from_micros(200));
                                tokio::task::yield_now().await;
                            }
                            Err(e) => return Err(e.to_string()),
                        }
                    };
                    sock.set_nonblocking(false).ok();
                    let (stdin_r, stdout_w, pid) = recv_fds(&sock).map_err(|e| e.to_string())?;
                    // fakecli reports (one byte, then EOF) once it has closed its own copies of the two
                    // descriptors: from here on only this process holds the peer's ends of the pipes, so an
                    // EOF seen by the client never waits for another process to be scheduled
                    {
                        use std::io::Read;
                        let mut ack = [0u8; 1];
                        let _ = (&sock).read(&mut ack);
                    }
                    // the helper keeps its end of the socket open for as long as it lives: EOF = it was killed
                    CHILD_DEAD.with(|c| c.set(false));
                    sock.set_nonblocking(true).ok();
                    let life = tokio::net::UnixStream::from_std(sock).map_err(|e| e.to_string())?;
                    let mut rx = tokio::net::unix::pipe::Receiver::from_owned_fd(stdin_r).map_err(|e| e.to_string())?;
                    let tx = tokio::net::unix::pipe::Sender::from_owned_fd(stdout_w).map_err(|e| e.to_string())?;
                    let ps4 = ps3.clone();
                    let reader = tokio::spawn(async move {
                        let mut buf = [0u8; 4096];
                        loop {
                            match rx.read(&mut buf).await {
                                Ok(0) | Err(_) => break,
                                Ok(n) => feed(&ps4, &buf[..n]),
                            }
                        }
                    });
                    // (the peer's copy of the client's stdin stays open until the scenario ends, as it always did:
                    // closing it from here would race with the client's next write - EPIPE or EOF - in real time)
                    let watcher = tokio::spawn(async move {
                        let mut life = life;
                        let mut b = [0u8; 8];
                        loop {
                            match life.read(&mut b).await {
                                Ok(0) | Err(_) => break,
                                Ok(_) => {}
                            }
                        }
                        CHILD_DEAD.with(|c| c.set(true));
                    });
                    let r = play(steps, PeerIo::Local(Some(tx), pid), ps3, out3.clone(), epoch).await;
                    reader.abort();
                    watcher.abort();
                    r
                };
                let peer = tokio::spawn(accept);
                match session.await {
                    Ok(Err(e)) => out2.lock().unwrap().establish = Some(Res::Err(format!("{e:?}").chars().take(200).collect())),
                    Ok(Ok(s)) => client_workload(Ok(s), &sc, &out2).await,
                    Err(e) => client_workload::<netconf::transport::JunosLocal>(Err(e), &sc, &out2).await,
                }
                peer.abort();
                if let Ok(Err(e)) = peer.await {
                    if !e.contains("peer write") {
                        fail(&out2, e);
                    }
                }
                let _ = std::fs::remove_file(&path);
            }
        }
        heartbeat.abort();
        out2.lock().unwrap().virt_ns = tokio::time::Instant::now().duration_since(epoch).as_nanos() as u64;
    });
    drop(rt);
    let mut o = out.lock().unwrap().clone();
    o.client_messages.extend(ps.0.lock().unwrap().messages.clone());
    set_scenario("");
    o
}
