//! R-sim: transport-level simulator (real TLS / SSH / child-process transports vs scripted peer).

use std::sync::atomic::AtomicU64;
use std::sync::Mutex;

/// number of task polls observed by the runtime hooks (distinguishes yielding from non-yielding spins)
pub static POLLS: AtomicU64 = AtomicU64::new(0);

static SCENARIO: Mutex<String> = Mutex::new(String::new());

pub fn set_scenario(s: &str) {
    *SCENARIO.lock().unwrap() = s.to_string();
}

pub fn current_scenario() -> String {
    SCENARIO.lock().map(|s| s.clone()).unwrap_or_default()
}
