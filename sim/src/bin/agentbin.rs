//! The agent's executable, built from the repository's own source file for it (argument parsing,
//! global tracing subscriber and the final `error!` of the error chain included), linked against
//! the shadow build of the agent library.
use agent as bgpfu_junos_agent;

include!("/repo/junos-agent/src/bin/bgpfu-junos-agent.rs");
