//! Stand-in for the Junos `cli` binary spawned by the local transport: it hands its stdin and
//! stdout descriptors to the simulation harness (over the Unix socket named by
//! VERIF_FAKECLI_SOCK, as SCM_RIGHTS), closes its own copies and sleeps (keeping the socket open, so that the harness sees it die). From then on the
//! harness *is* the `cli` process's I/O, in-process and in lock-step with the client.

use std::os::fd::AsRawFd;
use std::os::unix::net::UnixStream;

fn main() {
    let Ok(path) = std::env::var("VERIF_FAKECLI_SOCK") else {
        eprintln!("fakecli: VERIF_FAKECLI_SOCK not set");
        std::process::exit(2);
    };
    let sock = match UnixStream::connect(&path) {
        Ok(s) => s,
        Err(e) => {
            eprintln!("fakecli: connect {path}: {e}");
            std::process::exit(2);
        }
    };
    let pid = (std::process::id() as i32).to_le_bytes();
    let fds: [i32; 2] = [0, 1];
    let mut iov = libc::iovec { iov_base: pid.as_ptr() as *mut _, iov_len: 4 };
    let mut cbuf = [0u8; 64];
    // SAFETY: plain sendmsg with one SCM_RIGHTS control message carrying two descriptors
    unsafe {
        let mut msg: libc::msghdr = std::mem::zeroed();
        msg.msg_iov = &mut iov;
        msg.msg_iovlen = 1;
        msg.msg_control = cbuf.as_mut_ptr().cast();
        msg.msg_controllen = libc::CMSG_SPACE(8) as usize;
        let cmsg = libc::CMSG_FIRSTHDR(&msg);
        (*cmsg).cmsg_level = libc::SOL_SOCKET;
        (*cmsg).cmsg_type = libc::SCM_RIGHTS;
        (*cmsg).cmsg_len = libc::CMSG_LEN(8) as usize;
        std::ptr::copy_nonoverlapping(fds.as_ptr().cast::<u8>(), libc::CMSG_DATA(cmsg), 8);
        if libc::sendmsg(sock.as_raw_fd(), &msg, 0) < 0 {
            eprintln!("fakecli: sendmsg failed");
            std::process::exit(2);
        }
        libc::close(0);
        libc::close(1);
        // tell the harness that our copies are gone (it waits for this byte before it starts)
        let ack = [b'c'];
        let _ = libc::write(sock.as_raw_fd(), ack.as_ptr().cast(), 1);
    }
    // the socket stays open for as long as this process lives: its EOF tells the harness that we were killed
    let _life = sock;
    loop {
        // SAFETY: pause until killed (the transport spawns us with kill_on_drop)
        unsafe {
            libc::pause();
        }
    }
}
