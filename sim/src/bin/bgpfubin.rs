//! The `bgpfu` executable, built from the repository's own source file for it.
use cli as bgpfu_cli;

include!("/repo/cli/src/bin/bgpfu.rs");
