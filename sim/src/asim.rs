//! A-sim: agent-level simulator.
//!
//! The real agent (`Updater::run`, `Loop::start`, client typestate, fetch / eval / compare /
//! load), the real `netconf::Session`, `bgpfu-lib`, `rpsl` and the `irrc` pipeline run on a real
//! tokio `current_thread` runtime with a paused (auto-advancing = discrete-event) clock.
//! Stubs: the NETCONF transport (in-memory, with seeded virtual delays), the IRR socket
//! (FakeIrrd, synchronous), `block_in_place` (direct call through the tokio shim).
//! Peer models: FakeJunos (this file) and FakeIrrd (irrd.rs).

use std::collections::{BTreeMap, VecDeque};
use std::fmt::Write as _;
use std::sync::{Arc, Mutex};
use std::time::Duration;

use async_trait::async_trait;
use bytes::Bytes;
use netconf::transport::{RecvHandle, SendHandle, Transport};
use netconf::{Error, Session};
use tokio::sync::Notify;
use tokio::time::Instant;

use crate::core::{beat, Ctx};
use crate::doc::{JCMD, NS, XNM};
use crate::xml::{esc_attr, esc_text, Elem};

pub const MARKER: &str = "]]>]]>";
pub const JUNOS_NS: &str = "http://xml.juniper.net/junos/23.1R0/junos";

// ---------------------------------------------------------------------------------------------
// router model
// ---------------------------------------------------------------------------------------------

#[derive(Clone, Debug, PartialEq, Eq)]
pub enum Body {
    /// `then reject` only: what the agent manages
    DefaultReject,
    /// nothing but the name
    Empty,
    /// terms and a final action
    Terms,
    /// another final action
    ThenAccept,
    /// `then { reject; }` plus something else inside then
    RejectPlus,
}

#[derive(Clone, Debug, PartialEq, Eq)]
pub struct RunningPolicy {
    pub name: String,
    /// raw annotation text as the operator typed it (without the /* */ decoration)
    pub comment: Option<String>,
    pub decorate: usize,
    pub active: Option<bool>,
    pub body: Body,
    /// attribute order / duplication variants (C16)
    pub attr_variant: usize,
}

#[derive(Clone, Debug, PartialEq, Eq, Default)]
pub struct EphTerm {
    pub name: String,
    pub family: Option<String>,
    /// (address, prefix-length-range value such as "/24-/32")
    pub filters: Vec<(String, String)>,
    pub then: Vec<String>,
}

#[derive(Clone, Debug, PartialEq, Eq, Default)]
pub struct EphPolicy {
    pub terms: Vec<EphTerm>,
    pub then: Vec<String>,
    pub comment: Option<String>,
}

/// ordered like Junos keeps it: insertion order
pub type EphDb = Vec<(String, EphPolicy)>;

#[derive(Clone, Copy, Debug, PartialEq, Eq)]
pub enum FaultKind {
    /// top-level rpc-error instead of the positive reply; the operation is not performed
    RpcError,
    /// load-configuration only: error inside load-configuration-results with a consistent count
    LoadErrorInResults,
    /// load-configuration only: error-severity rpc-error followed by <ok/>; not performed
    LoadErrorThenOk,
    /// the positive indication FOLLOWED by an error-severity rpc-error (inside
    /// load-configuration-results for a load); not performed
    OkThenError,
    /// load-configuration only (elsewhere like RpcError): the router refuses the route-filter
    /// statements of the payload ("configuration database size limit exceeded") but merges what it
    /// could create - the term with its family match and its accept - into the open database, and
    /// reports the error. If that database is committed, the term accepts the whole family.
    LoadPartial,
    /// a well-formed <rpc-reply> without any content where the operation's positive reply has some
    /// (<ok/>, <data>, load-configuration-results): no acknowledgement; not performed. For the
    /// operations whose positive reply IS empty (open-/close-configuration) this is not a fault.
    EmptyBody,
    /// the reply is not well-formed XML
    Malformed,
    /// the reply is cut in the middle (the delimiter still follows)
    Truncated,
    /// the reply carries a message-id that was never used
    UnknownId,
    /// the reply carries the message-id of the next outstanding request
    OtherOutstandingId,
    /// the (valid) reply is sent twice
    Duplicate,
    /// the connection is closed instead of replying
    CloseBeforeReply,
    /// the reply is sent, then the connection is closed
    CloseAfterReply,
    /// not a fault: a warning precedes the positive indication
    WarningThenOk,
    /// a warning-severity rpc-error next to an error-severity one (warning first, or error first, by the
    /// request index's parity); the operation is not performed
    WarningAndError,
}

impl FaultKind {
    pub fn is_fault(self) -> bool {
        !matches!(self, Self::WarningThenOk)
    }
}

#[derive(Clone, Debug, PartialEq, Eq)]
pub enum ReplyKind {
    Positive,
    PositiveWithWarning,
    Negative,
    Garbage,
    NoReply,
}

#[derive(Clone, Debug)]
pub struct ReqLog {
    pub op: String,
    pub id: String,
    pub raw: String,
    /// for load-configuration: (policy name, is delete)
    pub policy: Option<(String, bool)>,
    pub paths: Vec<String>,
    pub reply: ReplyKind,
    pub fault: Option<FaultKind>,
    /// the reply (or all of its copies) has been consumed by the client
    pub delivered: bool,
    /// virtual time of arrival, ns since the start of the history
    pub at_ns: u64,
    /// snapshot of the session's working copy after this request was processed
    pub working_after: Option<EphDb>,
    /// problems the server noticed in the request itself
    pub server_complaint: Option<String>,
    /// for commit-configuration: were all earlier replies of this session delivered and positive when it arrived?
    pub all_earlier_acked: bool,
    /// the server performed the operation on its model
    pub applied: bool,
}

struct OutMsg {
    bytes: Vec<u8>,
    ready_at: Instant,
    req: Option<usize>,
}

#[derive(Default)]
pub struct SessionState {
    pub log: Vec<ReqLog>,
    pub open: Option<(String, EphDb)>,
    /// what a session without an open ephemeral database works on: like Junos, the shared candidate
    /// configuration (modelled as the policy statements loaded so far; committing it does not touch
    /// any ephemeral instance)
    pub shared_candidate: EphDb,
    pub committed_shared: bool,
    outbox: VecDeque<OutMsg>,
    pub closed_by_server: bool,
    close_when_drained: bool,
    inbuf: Vec<u8>,
    pub client_hello_seen: bool,
    pub committed: bool,
    pub unframed_garbage: bool,
    /// index of the connection attempt this session belongs to
    pub attempt: Option<usize>,
}

#[derive(Default)]
pub struct Junos {
    pub running: Vec<RunningPolicy>,
    /// configured ephemeral instances and their committed content
    pub instances: BTreeMap<String, EphDb>,
    pub sessions: Vec<SessionState>,
    /// (session index, request index within the session, kind)
    pub faults: Vec<(usize, usize, FaultKind)>,
    /// emit a duplicate xmlns:jcmd attribute when both jcmd:active and jcmd:comment are present (as Junos does)
    pub dup_xmlns: bool,
    /// refuse the next n connection attempts
    pub refuse_connections: usize,
    pub connection_attempts: Vec<u64>,
    /// daemon simulations: what happens at the k-th connection attempt
    pub script: Vec<AttemptPlan>,
    /// virtual time (ns) of the last transport event of each attempt
    pub attempt_last_ns: Vec<u64>,
    /// when the job of each attempt ended, and whether it failed: the instant of the connection
    /// refusal, of the delivery of the first negative reply, of the EOF, or of the delivery of
    /// the positive close-session reply (the agent acts on each of these without further delay)
    pub attempt_end: Vec<Option<(u64, bool)>>,
    /// ns at which each refused/failed attempt ended
    pub epoch: Option<Instant>,
}

#[derive(Clone, Copy, Debug, PartialEq, Eq)]
pub enum AttemptKind {
    Succeed,
    /// the connection attempt fails (after `connect_ms` of virtual time)
    FailConnect,
    /// the session is established, then the request at this position is answered with an rpc-error
    FailAtRequest(usize),
    /// the session is established, then the server closes the connection instead of answering this request
    CloseAtRequest(usize),
    /// the job panics at its connection attempt (a bug somewhere below Updater::run): for the
    /// daemon that is one more failed run
    Panic,
}

#[derive(Clone, Debug)]
pub struct AttemptPlan {
    pub kind: AttemptKind,
    pub connect_ms: u64,
    /// virtual delay (ms) of every send and every reply of this attempt
    pub step_ms: u64,
}

pub fn decorate(comment: &str, style: usize) -> String {
    match style % 4 {
        0 => format!("/* {comment} */"),
        1 => comment.to_string(),
        2 => format!("/*{comment}*/"),
        _ => format!("/*  {comment}  */"),
    }
}

pub fn render_running_policy(p: &RunningPolicy, dup_xmlns: bool) -> String {
    let mut attrs: Vec<String> = Vec::new();
    let xmlns = format!("xmlns:jcmd=\"{JCMD}\"");
    let comment = p.comment.as_ref().map(|c| format!("jcmd:comment=\"{}\"", esc_attr(&decorate(c, p.decorate))));
    let active = p.active.map(|a| format!("jcmd:active=\"{a}\""));
    let both = comment.is_some() && active.is_some();
    match p.attr_variant % 4 {
        0 => {
            if comment.is_some() || active.is_some() {
                attrs.push(xmlns.clone());
            }
            attrs.extend(comment.clone());
            if both && dup_xmlns {
                attrs.push(xmlns.clone());
            }
            attrs.extend(active.clone());
        }
        1 => {
            if comment.is_some() || active.is_some() {
                attrs.push(xmlns.clone());
            }
            attrs.extend(active.clone());
            if both && dup_xmlns {
                attrs.push(xmlns.clone());
            }
            attrs.extend(comment.clone());
        }
        2 => {
            attrs.extend(comment.clone());
            attrs.extend(active.clone());
            if comment.is_some() || active.is_some() {
                attrs.push(xmlns.clone());
            }
            attrs.push("junos:changed-seconds=\"1709120869\"".into());
        }
        _ => {
            attrs.push("inactive=\"inactive\"".into());
            if comment.is_some() || active.is_some() {
                attrs.push(xmlns.clone());
            }
            attrs.extend(active.clone());
            attrs.extend(comment.clone());
        }
    }
    let mut s = String::from("<policy-statement");
    for a in attrs {
        s.push(' ');
        s.push_str(&a);
    }
    s.push('>');
    let _ = write!(s, "<name>{}</name>", esc_text(&p.name));
    match p.body {
        Body::DefaultReject => s.push_str("<then><reject/></then>"),
        Body::Empty => {}
        Body::Terms => s.push_str("<term><name>t1</name><from><protocol>bgp</protocol></from><then><accept/></then></term><then><reject/></then>"),
        Body::ThenAccept => s.push_str("<then><accept/></then>"),
        Body::RejectPlus => s.push_str("<then><metric><metric>10</metric></metric><reject/></then>"),
    }
    s.push_str("</policy-statement>");
    s
}

pub fn render_running(policies: &[RunningPolicy], dup_xmlns: bool) -> String {
    let mut s = format!("<configuration xmlns=\"{XNM}\" junos:commit-seconds=\"1709120869\" junos:commit-localtime=\"2024-02-28 11:47:49 UTC\" junos:commit-user=\"op\">");
    if !policies.is_empty() {
        s.push_str("<policy-options>");
        for p in policies {
            s.push_str(&render_running_policy(p, dup_xmlns));
        }
        s.push_str("</policy-options>");
    }
    s.push_str("</configuration>");
    s
}

/// The running configuration of the model router as a get-config reply body: besides the policy
/// statements it holds other configuration (version, system, prefix-lists, communities,
/// protocols), and the request's subtree filter decides what of it is returned - as on a real
/// router, no filter means everything. Filter semantics (RFC 6241 section 6, as far as the
/// structure of this configuration needs it): elements are matched by local name; an empty
/// element selects the whole subtree; an element with children contains only what they select;
/// `<policy-statement><name>X</name></policy-statement>` selects the statement named X.
pub fn render_running_filtered(policies: &[RunningPolicy], dup_xmlns: bool, filter: Option<&crate::xml::Elem>) -> String {
    let open = format!("<configuration xmlns=\"{XNM}\" junos:commit-seconds=\"1709120869\" junos:commit-localtime=\"2024-02-28 11:47:49 UTC\" junos:commit-user=\"op\">");
    let version = "<version>23.1R1.8</version>";
    let system = "<system><host-name>r1</host-name><services><netconf><ssh></ssh></netconf></services></system>";
    let prefix_list = "<prefix-list><name>pl-loopbacks</name><prefix-list-item><name>192.0.2.0/24</name></prefix-list-item></prefix-list>";
    let community = "<community><name>c-blackhole</name><members>65000:666</members></community>";
    let protocols = "<protocols><bgp><group><name>peers</name><import>fltr-foo</import></group></bgp></protocols>";
    let statements = |only: Option<&str>| -> String { policies.iter().filter(|p| only.map_or(true, |n| p.name == n)).map(|p| render_running_policy(p, dup_xmlns)).collect() };
    let Some(filter) = filter else {
        return format!("{open}{version}{system}<policy-options>{prefix_list}{}{community}</policy-options>{protocols}</configuration>", statements(None));
    };
    if filter.attr("type").is_some_and(|t| t != "subtree") {
        return format!("{open}</configuration>");
    }
    let mut body = String::new();
    for top in filter.elems() {
        if top.local != "configuration" {
            continue;
        }
        if top.elems().next().is_none() {
            // <configuration/> selects everything
            return render_running_filtered(policies, dup_xmlns, None);
        }
        for sect in top.elems() {
            match sect.local.as_str() {
                "version" => body.push_str(version),
                "system" => body.push_str(system),
                "protocols" => body.push_str(protocols),
                "policy-options" => {
                    let mut inner = String::new();
                    if sect.elems().next().is_none() {
                        let _ = write!(inner, "{prefix_list}{}{community}", statements(None));
                    }
                    for k in sect.elems() {
                        match k.local.as_str() {
                            "prefix-list" => inner.push_str(prefix_list),
                            "community" => inner.push_str(community),
                            "policy-statement" => match k.child("name") {
                                Some(n) => inner.push_str(&statements(Some(n.text().trim()))),
                                None => inner.push_str(&statements(None)),
                            },
                            _ => {}
                        }
                    }
                    if !inner.is_empty() {
                        let _ = write!(body, "<policy-options>{inner}</policy-options>");
                    }
                }
                _ => {}
            }
        }
    }
    format!("{open}{body}</configuration>")
}

pub fn render_ephemeral(db: &EphDb) -> String {
    let mut s = format!("<configuration xmlns=\"{XNM}\" junos:changed-seconds=\"1709120869\" junos:changed-localtime=\"2024-02-28 11:47:49 UTC\">");
    if !db.is_empty() {
        s.push_str("<policy-options>");
        for (name, p) in db {
            let _ = write!(s, "<policy-statement><name>{}</name>", esc_text(name));
            for t in &p.terms {
                let _ = write!(s, "<term><name>{}</name>", esc_text(&t.name));
                if t.family.is_some() || !t.filters.is_empty() {
                    s.push_str("<from>");
                    if let Some(f) = &t.family {
                        let _ = write!(s, "<family>{}</family>", esc_text(f));
                    }
                    for (a, r) in &t.filters {
                        let _ = write!(s, "<route-filter><address>{}</address><choice-ident>prefix-length-range</choice-ident><choice-value>{}</choice-value></route-filter>", esc_text(a), esc_text(r));
                    }
                    s.push_str("</from>");
                }
                if !t.then.is_empty() {
                    s.push_str("<then>");
                    for a in &t.then {
                        let _ = write!(s, "<{a}/>");
                    }
                    s.push_str("</then>");
                }
                s.push_str("</term>");
            }
            if !p.then.is_empty() {
                s.push_str("<then>");
                for a in &p.then {
                    let _ = write!(s, "<{a}/>");
                }
                s.push_str("</then>");
            }
            s.push_str("</policy-statement>");
        }
        s.push_str("</policy-options>");
    }
    s.push_str("</configuration>");
    s
}

pub fn data_doc(config: &str) -> String {
    format!("<data xmlns=\"{NS}\" xmlns:junos=\"{JUNOS_NS}\">{config}</data>")
}

fn reply_doc(id: &str, body: &str) -> Vec<u8> {
    format!("<rpc-reply xmlns=\"{NS}\" xmlns:junos=\"{JUNOS_NS}\" message-id=\"{}\">{body}</rpc-reply>{MARKER}", esc_attr(id)).into_bytes()
}

fn rpc_error(severity: &str, tag: &str, msg: &str) -> String {
    format!("<rpc-error><error-type>protocol</error-type><error-tag>{tag}</error-tag><error-severity>{severity}</error-severity><error-message>{}</error-message></rpc-error>", esc_text(msg))
}

/// Apply one `<configuration>` load payload (merge) to a working copy. Returns warnings, or an
/// error (nothing applied) when the payload is not something the model understands.
pub fn apply_load(db: &mut EphDb, config: &Elem) -> Result<Vec<String>, String> {
    let mut warnings = Vec::new();
    if config.local != "configuration" {
        return Err(format!("unexpected element <{}>", config.local));
    }
    let mut next = db.clone();
    for po in config.elems() {
        if po.local != "policy-options" {
            return Err(format!("unexpected element <{}> in <configuration>", po.local));
        }
        for ps in po.elems() {
            if ps.local != "policy-statement" {
                return Err(format!("unexpected element <{}> in <policy-options>", ps.local));
            }
            let name = ps.child("name").map(Elem::text).ok_or("policy-statement without <name>")?;
            if ps.attr_q("delete") == Some("delete") {
                let before = next.len();
                next.retain(|(n, _)| *n != name);
                if next.len() == before {
                    warnings.push(format!("statement not found: policy-statement {name}"));
                }
                continue;
            }
            for a in &ps.attrs {
                if !matches!(a.qname.as_str(), "junos:comment" | "delete") && !a.qname.starts_with("xmlns") {
                    return Err(format!("unexpected attribute {} on <policy-statement>", a.qname));
                }
            }
            let idx = match next.iter().position(|(n, _)| *n == name) {
                Some(i) => i,
                None => {
                    next.push((name.clone(), EphPolicy::default()));
                    next.len() - 1
                }
            };
            let pol = &mut next[idx].1;
            if let Some(c) = ps.attr_q("junos:comment") {
                pol.comment = Some(c.to_string());
            }
            for e in ps.elems() {
                match e.local.as_str() {
                    "name" => {}
                    "term" => {
                        let tname = e.child("name").map(Elem::text).ok_or("term without <name>")?;
                        if e.attr_q("delete") == Some("delete") {
                            let before = pol.terms.len();
                            pol.terms.retain(|t| t.name != tname);
                            if pol.terms.len() == before {
                                warnings.push(format!("statement not found: term {tname}"));
                            }
                            continue;
                        }
                        let ti = match pol.terms.iter().position(|t| t.name == tname) {
                            Some(i) => i,
                            None => {
                                pol.terms.push(EphTerm { name: tname.clone(), ..EphTerm::default() });
                                pol.terms.len() - 1
                            }
                        };
                        let term = &mut pol.terms[ti];
                        for te in e.elems() {
                            match te.local.as_str() {
                                "name" => {}
                                "from" => {
                                    for fe in te.elems() {
                                        match fe.local.as_str() {
                                            "family" => term.family = Some(fe.text()),
                                            "route-filter" => {
                                                let addr = fe.child("address").map(Elem::text).ok_or("route-filter without <address>")?;
                                                let range = fe.child("prefix-length-range").map(Elem::text).ok_or("route-filter without <prefix-length-range>")?;
                                                for x in fe.elems() {
                                                    if !matches!(x.local.as_str(), "address" | "prefix-length-range") {
                                                        return Err(format!("unexpected element <{}> in <route-filter>", x.local));
                                                    }
                                                }
                                                // validate like Junos would
                                                let okaddr = addr.parse::<ip::Prefix<ip::Any>>().is_ok();
                                                let okrange = range.split_once('-').is_some_and(|(l, u)| l.strip_prefix('/').is_some_and(|l| l.parse::<u8>().is_ok()) && u.strip_prefix('/').is_some_and(|u| u.parse::<u8>().is_ok()));
                                                if !okaddr || !okrange {
                                                    return Err(format!("invalid route-filter {addr} {range}"));
                                                }
                                                let key = (addr, range);
                                                if fe.attr_q("delete") == Some("delete") {
                                                    let before = term.filters.len();
                                                    term.filters.retain(|f| *f != key);
                                                    if term.filters.len() == before {
                                                        warnings.push(format!("statement not found: route-filter {} {}", key.0, key.1));
                                                    }
                                                } else if !term.filters.contains(&key) {
                                                    term.filters.push(key);
                                                }
                                            }
                                            other => return Err(format!("unexpected element <{other}> in <from>")),
                                        }
                                    }
                                }
                                "then" => {
                                    for a in te.elems() {
                                        if !term.then.contains(&a.local) {
                                            term.then.push(a.local.clone());
                                        }
                                    }
                                }
                                other => return Err(format!("unexpected element <{other}> in <term>")),
                            }
                        }
                    }
                    "then" => {
                        for a in e.elems() {
                            if !pol.then.contains(&a.local) {
                                pol.then.push(a.local.clone());
                            }
                        }
                    }
                    other => return Err(format!("unexpected element <{other}> in <policy-statement>")),
                }
            }
        }
    }
    *db = next;
    Ok(warnings)
}

impl Junos {
    fn fault_for(&self, sid: usize, req: usize) -> Option<FaultKind> {
        if let Some(plan) = self.sessions[sid].attempt.and_then(|a| self.script.get(a)) {
            match plan.kind {
                AttemptKind::FailAtRequest(k) if k == req => return Some(FaultKind::RpcError),
                AttemptKind::CloseAtRequest(k) if k == req => return Some(FaultKind::CloseBeforeReply),
                _ => {}
            }
        }
        self.faults.iter().find(|(s, r, _)| *s == sid && *r == req).map(|f| f.2)
    }

    /// Process the bytes of one `send()`. Returns the messages to enqueue: (bytes, request index).
    fn on_bytes(&mut self, sid: usize, data: &[u8], now_ns: u64) -> Vec<(Vec<u8>, Option<usize>)> {
        let mut out = Vec::new();
        self.sessions[sid].inbuf.extend_from_slice(data);
        loop {
            let Some(pos) = crate::ssim::find(&self.sessions[sid].inbuf, MARKER.as_bytes()) else { break };
            let msg: Vec<u8> = self.sessions[sid].inbuf.drain(..pos + MARKER.len()).collect();
            let msg = String::from_utf8_lossy(&msg[..pos]).into_owned();
            out.extend(self.on_message(sid, &msg, now_ns));
        }
        out
    }

    fn on_message(&mut self, sid: usize, msg: &str, now_ns: u64) -> Vec<(Vec<u8>, Option<usize>)> {
        let doc = match crate::xml::parse_lenient_ns(msg) {
            Ok(d) => d,
            Err(e) => {
                let k = self.sessions[sid].log.len();
                self.sessions[sid].log.push(ReqLog {
                    op: "<malformed>".into(),
                    id: String::new(),
                    raw: msg.to_string(),
                    policy: None,
                    paths: Vec::new(),
                    reply: ReplyKind::Negative,
                    fault: None,
                    delivered: false,
                    at_ns: now_ns,
                    working_after: None,
                    server_complaint: Some(format!("request is not well-formed: {e}")),
                    all_earlier_acked: false,
                    applied: false,
                });
                return vec![(reply_doc("0", &rpc_error("error", "malformed-message", "not well-formed")), Some(k))];
            }
        };
        if doc.root.local == "hello" {
            self.sessions[sid].client_hello_seen = true;
            return Vec::new();
        }
        let id = doc.root.attr("message-id").unwrap_or("").to_string();
        let Some(op) = doc.root.elems().next() else { return Vec::new() };
        let k = self.sessions[sid].log.len();
        let fault = self.fault_for(sid, k);
        let all_earlier_acked = self.sessions[sid].log.iter().all(|r| r.delivered && matches!(r.reply, ReplyKind::Positive | ReplyKind::PositiveWithWarning));
        let mut rec = ReqLog {
            op: op.local.clone(),
            id: id.clone(),
            raw: msg.to_string(),
            policy: None,
            paths: Vec::new(),
            reply: ReplyKind::Positive,
            fault,
            delivered: false,
            at_ns: now_ns,
            working_after: None,
            server_complaint: None,
            all_earlier_acked,
            applied: false,
        };
        op.paths("", &mut rec.paths);
        let refuse = matches!(fault, Some(FaultKind::RpcError | FaultKind::WarningAndError | FaultKind::LoadErrorInResults | FaultKind::LoadErrorThenOk | FaultKind::OkThenError | FaultKind::LoadPartial | FaultKind::CloseBeforeReply))
            || (fault == Some(FaultKind::EmptyBody) && !matches!(op.local.as_str(), "open-configuration" | "close-configuration"));
        // ---- perform the operation on the model
        let mut warnings: Vec<String> = Vec::new();
        let mut body: Result<String, String> = match op.local.as_str() {
            "open-configuration" => {
                let inst = op.child("ephemeral-instance").map(Elem::text);
                match (inst, op.child("ephemeral").is_some(), op.child("private").is_some()) {
                    (Some(name), _, _) => match self.instances.get(&name) {
                        Some(db) if !refuse => {
                            if self.sessions[sid].open.is_some() {
                                Err("a configuration database is already open".into())
                            } else {
                                self.sessions[sid].open = Some((name, db.clone()));
                                Ok(String::new())
                            }
                        }
                        Some(_) => Ok(String::new()),
                        None => Err(format!("ephemeral instance '{name}' is not configured")),
                    },
                    _ => {
                        rec.server_complaint = Some("open-configuration for something other than a named ephemeral instance".into());
                        Err("unsupported open-configuration target".into())
                    }
                }
            }
            "get-config" => {
                let src = op.child("source").and_then(|s| s.elems().next()).map(|e| e.local.clone()).unwrap_or_default();
                match src.as_str() {
                    "running" => Ok(format!("<data>{}</data>", render_running_filtered(&self.running, self.dup_xmlns, op.child("filter")))),
                    "candidate" => match &self.sessions[sid].open {
                        Some((_, db)) => Ok(format!("<data>{}</data>", render_ephemeral(db))),
                        None => Ok(format!("<data>{}</data>", render_ephemeral(&self.sessions[sid].shared_candidate))),
                    },
                    other => Err(format!("unsupported source <{other}>")),
                }
            }
            "load-configuration" => {
                let fmt_ok = op.attr("format").map_or(true, |f| f == "xml");
                let action = op.attr("action").unwrap_or("merge").to_string();
                let cfg = op.child("configuration");
                if let Some(ps) = cfg.and_then(|c| c.child("policy-options")).and_then(|p| p.child("policy-statement")) {
                    rec.policy = Some((ps.child("name").map(Elem::text).unwrap_or_default(), ps.attr_q("delete") == Some("delete")));
                }
                if self.sessions[sid].open.is_none() {
                    // no ephemeral (or private) database is open: the load goes to the shared candidate configuration
                    rec.server_complaint = Some("load-configuration without an open ephemeral database (it went to the shared candidate configuration)".into());
                    match cfg {
                        Some(cfg) if fmt_ok && action == "merge" && !refuse => match apply_load(&mut self.sessions[sid].shared_candidate, cfg) {
                            Ok(_) => Ok("<load-configuration-results><ok/></load-configuration-results>".into()),
                            Err(e) => Err(e),
                        },
                        Some(_) if refuse => Ok(String::new()),
                        _ => Err("unsupported load".into()),
                    }
                } else if !fmt_ok || action != "merge" {
                    rec.server_complaint = Some(format!("load-configuration with format/action {:?}/{action}", op.attr("format")));
                    Err("unsupported load format/action".into())
                } else if fault == Some(FaultKind::LoadPartial) {
                    // merge the payload, then take the route-filters it added out again
                    if let Some(cfg) = cfg {
                        let (_, db) = self.sessions[sid].open.as_mut().unwrap();
                        let before = db.clone();
                        if apply_load(db, cfg).is_ok() {
                            for (name, pol) in db.iter_mut() {
                                let old = before.iter().find(|(n, _)| n == name).map(|(_, p)| p);
                                for t in &mut pol.terms {
                                    let old_filters: Vec<_> = old.and_then(|p| p.terms.iter().find(|ot| ot.name == t.name)).map(|ot| ot.filters.clone()).unwrap_or_default();
                                    t.filters.retain(|f| old_filters.contains(f));
                                }
                            }
                        }
                    }
                    Ok(String::new())
                } else if refuse {
                    Ok(String::new())
                } else {
                    match cfg {
                        Some(cfg) => {
                            let (_, db) = self.sessions[sid].open.as_mut().unwrap();
                            match apply_load(db, cfg) {
                                Ok(w) => {
                                    warnings = w;
                                    Ok("<load-configuration-results><ok/></load-configuration-results>".into())
                                }
                                Err(e) => {
                                    rec.server_complaint = Some(e.clone());
                                    Err(e)
                                }
                            }
                        }
                        None => Err("load-configuration without <configuration>".into()),
                    }
                }
            }
            "commit-configuration" => match self.sessions[sid].open.clone() {
                Some((name, db)) if !refuse => {
                    if op.elems().next().is_some() {
                        rec.server_complaint = Some("commit-configuration with options".into());
                    }
                    self.instances.insert(name, db);
                    self.sessions[sid].committed = true;
                    Ok("<ok/>".into())
                }
                Some(_) => Ok(String::new()),
                None if refuse => Ok(String::new()),
                None => {
                    // commits the shared candidate configuration; no ephemeral instance changes
                    rec.server_complaint = Some("commit-configuration without an open ephemeral database (the shared candidate configuration was committed)".into());
                    self.sessions[sid].committed_shared = true;
                    Ok("<ok/>".into())
                }
            },
            "close-configuration" => {
                if !refuse {
                    self.sessions[sid].open = None;
                }
                Ok(String::new())
            }
            "close-session" => {
                self.sessions[sid].close_when_drained = true;
                Ok("<ok/>".into())
            }
            other => {
                rec.server_complaint = Some(format!("unexpected operation <{other}>"));
                Err(format!("operation <{other}> not supported"))
            }
        };
        rec.working_after = self.sessions[sid].open.as_ref().map(|(_, db)| db.clone());
        rec.applied = body.is_ok() && !refuse;
        // ---- build the reply
        if !warnings.is_empty() && op.local == "load-configuration" {
            let w: String = warnings.iter().map(|w| rpc_error("warning", "operation-failed", w)).collect();
            body = Ok(format!("<load-configuration-results>{w}<ok/></load-configuration-results>"));
            rec.reply = ReplyKind::PositiveWithWarning;
        }
        let mut msgs: Vec<Vec<u8>> = Vec::new();
        match (&body, fault) {
            (Err(e), _) => {
                rec.reply = ReplyKind::Negative;
                let eb = if op.local == "load-configuration" {
                    format!("<load-configuration-results>{}<load-error-count>1</load-error-count></load-configuration-results>", rpc_error("error", "operation-failed", e))
                } else {
                    rpc_error("error", "operation-failed", e)
                };
                msgs.push(reply_doc(&id, &eb));
            }
            (Ok(b), None) => msgs.push(reply_doc(&id, b)),
            (Ok(b), Some(f)) => match f {
                FaultKind::RpcError => {
                    rec.reply = ReplyKind::Negative;
                    msgs.push(reply_doc(&id, &rpc_error("error", "operation-failed", "injected failure")));
                }
                FaultKind::WarningAndError => {
                    rec.reply = ReplyKind::Negative;
                    let w = rpc_error("warning", "operation-failed", "uncommitted changes will be discarded on exit");
                    let e = rpc_error("error", "operation-failed", "injected failure");
                    let both = if k % 2 == 0 { format!("{w}{e}") } else { format!("{e}{w}") };
                    let body = if op.local == "load-configuration" { format!("<load-configuration-results>{both}<load-error-count>1</load-error-count></load-configuration-results>") } else { both };
                    msgs.push(reply_doc(&id, &body));
                }
                FaultKind::LoadPartial if op.local != "load-configuration" => {
                    rec.reply = ReplyKind::Negative;
                    msgs.push(reply_doc(&id, &rpc_error("error", "operation-failed", "injected failure")));
                }
                FaultKind::LoadErrorInResults | FaultKind::LoadPartial => {
                    rec.reply = ReplyKind::Negative;
                    msgs.push(reply_doc(&id, &format!("<load-configuration-results>{}<load-error-count>1</load-error-count></load-configuration-results>", rpc_error("error", "operation-failed", "configuration database size limit exceeded"))));
                }
                FaultKind::LoadErrorThenOk => {
                    rec.reply = ReplyKind::Negative;
                    msgs.push(reply_doc(&id, &format!("<load-configuration-results>{}<ok/></load-configuration-results>", rpc_error("error", "operation-failed", "statement creation failed"))));
                }
                FaultKind::EmptyBody => {
                    if !b.is_empty() {
                        rec.reply = ReplyKind::Negative;
                    }
                    msgs.push(reply_doc(&id, ""));
                }
                FaultKind::OkThenError => {
                    rec.reply = ReplyKind::Negative;
                    let e = rpc_error("error", "operation-failed", "statement creation failed");
                    let positive = if op.local == "load-configuration" { "<load-configuration-results><ok/></load-configuration-results>".to_string() } else { b.clone() };
                    let body = match positive.rfind("</load-configuration-results>") {
                        Some(i) => format!("{}{e}{}", &positive[..i], &positive[i..]),
                        None => format!("{positive}{e}"),
                    };
                    msgs.push(reply_doc(&id, &body));
                }
                FaultKind::Malformed => {
                    rec.reply = ReplyKind::Garbage;
                    let mut m = reply_doc(&id, b);
                    let cut = m.len() - MARKER.len();
                    m.splice(cut..cut, b"<unclosed>".iter().copied());
                    msgs.push(m);
                }
                FaultKind::Truncated => {
                    rec.reply = ReplyKind::Garbage;
                    let m = reply_doc(&id, b);
                    let keep = (m.len() - MARKER.len()) * 2 / 3;
                    let mut t = m[..keep].to_vec();
                    t.extend_from_slice(MARKER.as_bytes());
                    msgs.push(t);
                }
                FaultKind::UnknownId => {
                    rec.reply = ReplyKind::Garbage;
                    msgs.push(reply_doc("777777", b));
                }
                FaultKind::OtherOutstandingId => {
                    rec.reply = ReplyKind::Garbage;
                    let other = id.parse::<u64>().map_or_else(|_| "1".to_string(), |n| (n + 1).to_string());
                    msgs.push(reply_doc(&other, b));
                }
                FaultKind::Duplicate => {
                    // the first copy is a valid positive reply: the step itself did not fail
                    msgs.push(reply_doc(&id, b));
                    msgs.push(reply_doc(&id, b));
                }
                FaultKind::CloseBeforeReply => {
                    rec.reply = ReplyKind::NoReply;
                    self.sessions[sid].close_when_drained = true;
                }
                FaultKind::CloseAfterReply => {
                    // the reply is valid: the step itself did not fail (later steps will)
                    msgs.push(reply_doc(&id, b));
                    self.sessions[sid].close_when_drained = true;
                }
                FaultKind::WarningThenOk => {
                    rec.reply = ReplyKind::PositiveWithWarning;
                    let w = rpc_error("warning", "operation-failed", "injected warning");
                    let b2 = if op.local == "load-configuration" {
                        format!("<load-configuration-results>{w}<ok/></load-configuration-results>")
                    } else {
                        // a top-level warning next to <ok/> is not something the bare / ok readers accept: only loads get it
                        b.clone()
                    };
                    if op.local != "load-configuration" {
                        rec.reply = ReplyKind::Positive;
                    }
                    msgs.push(reply_doc(&id, &b2));
                }
            },
        }
        self.sessions[sid].log.push(rec);
        msgs.into_iter().map(|m| (m, Some(k))).collect()
    }
}

// ---------------------------------------------------------------------------------------------
// transport
// ---------------------------------------------------------------------------------------------

pub struct Shared {
    pub ctx: Ctx,
    pub junos: Junos,
    /// virtual delays are drawn from these (ms); index 0 should be 0
    pub delays_ms: Vec<u64>,
}

pub type Sh = Arc<Mutex<Shared>>;

pub struct ATransport {
    sh: Sh,
    sid: usize,
    notify: Arc<Notify>,
}

pub struct ATx {
    sh: Sh,
    sid: usize,
    notify: Arc<Notify>,
}
pub struct ARx {
    sh: Sh,
    sid: usize,
    notify: Arc<Notify>,
}
impl std::fmt::Debug for ATx {
    fn fmt(&self, f: &mut std::fmt::Formatter<'_>) -> std::fmt::Result {
        write!(f, "SimTx#{}", self.sid)
    }
}
impl std::fmt::Debug for ARx {
    fn fmt(&self, f: &mut std::fmt::Formatter<'_>) -> std::fmt::Result {
        write!(f, "SimRx#{}", self.sid)
    }
}

impl Transport for ATransport {
    type SendHandle = ATx;
    type RecvHandle = ARx;
    fn split(self) -> (ATx, ARx) {
        (ATx { sh: self.sh.clone(), sid: self.sid, notify: self.notify.clone() }, ARx { sh: self.sh, sid: self.sid, notify: self.notify })
    }
}

fn step_delay(g: &mut Shared, sid: usize) -> Duration {
    if let Some(plan) = g.junos.sessions[sid].attempt.and_then(|a| g.junos.script.get(a)) {
        return Duration::from_millis(plan.step_ms);
    }
    let n = g.delays_ms.len();
    let i = g.ctx.pick(n);
    Duration::from_millis(g.delays_ms[i])
}

fn pick_delay(sh: &Sh, sid: usize) -> Duration {
    let mut g = sh.lock().unwrap();
    step_delay(&mut g, sid)
}

fn touch(g: &mut Shared, sid: usize, t: u64) {
    if let Some(a) = g.junos.sessions[sid].attempt {
        if let Some(slot) = g.junos.attempt_last_ns.get_mut(a) {
            *slot = t;
        }
    }
}

fn now_ns(g: &mut Shared) -> u64 {
    let epoch = *g.junos.epoch.get_or_insert_with(Instant::now);
    Instant::now().duration_since(epoch).as_nanos() as u64
}

#[async_trait]
impl SendHandle for ATx {
    async fn send(&mut self, data: Bytes) -> Result<(), Error> {
        beat();
        let d = pick_delay(&self.sh, self.sid);
        if !d.is_zero() {
            tokio::time::sleep(d).await;
        }
        let mut g = self.sh.lock().unwrap();
        if g.junos.sessions[self.sid].closed_by_server {
            return Err(Error::Transport(std::io::Error::new(std::io::ErrorKind::BrokenPipe, "simulated: connection closed by peer")));
        }
        let t = now_ns(&mut g);
        let replies = g.junos.on_bytes(self.sid, &data, t);
        let head: String = String::from_utf8_lossy(&data[..data.len().min(100)]).replace('\n', " ");
        crate::ev!(g.ctx, "[{:>9.3}ms] s{} client -> {}", t as f64 / 1e6, self.sid, head);
        touch(&mut g, self.sid, t);
        for (bytes, req) in replies {
            let ready_at = Instant::now() + step_delay(&mut g, self.sid);
            g.junos.sessions[self.sid].outbox.push_back(OutMsg { bytes, ready_at, req });
        }
        drop(g);
        self.notify.notify_waiters();
        Ok(())
    }
}

#[async_trait]
impl RecvHandle for ARx {
    async fn recv(&mut self) -> Result<Bytes, Error> {
        loop {
            beat();
            let notified = self.notify.notified();
            tokio::pin!(notified);
            notified.as_mut().enable();
            let wait = {
                let mut g = self.sh.lock().unwrap();
                let now = Instant::now();
                let t = now_ns(&mut g);
                let deliverable = g.junos.sessions[self.sid].outbox.front().is_some_and(|m| m.ready_at <= now);
                let closing = g.junos.sessions[self.sid].outbox.is_empty() && g.junos.sessions[self.sid].close_when_drained;
                if deliverable || closing {
                    touch(&mut g, self.sid, t);
                }
                let s = &mut g.junos.sessions[self.sid];
                match s.outbox.front() {
                    Some(m) if m.ready_at <= now => {
                        let m = s.outbox.pop_front().unwrap();
                        let mut ended: Option<bool> = None;
                        if let Some(k) = m.req {
                            if let Some(r) = s.log.get_mut(k) {
                                r.delivered = true;
                                let positive = matches!(r.reply, ReplyKind::Positive | ReplyKind::PositiveWithWarning);
                                if !positive {
                                    ended = Some(true);
                                } else if r.op == "close-session" {
                                    ended = Some(false);
                                }
                            }
                        }
                        if let (Some(failed), Some(a)) = (ended, s.attempt) {
                            if let Some(slot) = g.junos.attempt_end.get_mut(a) {
                                if slot.is_none() {
                                    *slot = Some((t, failed));
                                }
                            }
                        }
                        let head: String = String::from_utf8_lossy(&m.bytes[..m.bytes.len().min(100)]).replace('\n', " ");
                        crate::ev!(g.ctx, "[{:>9.3}ms] s{} server -> {}", t as f64 / 1e6, self.sid, head);
                        return Ok(Bytes::from(m.bytes));
                    }
                    Some(m) => Some(m.ready_at),
                    None => {
                        if s.close_when_drained {
                            s.closed_by_server = true;
                            if let Some(a) = s.attempt {
                                if let Some(slot) = g.junos.attempt_end.get_mut(a) {
                                    if slot.is_none() {
                                        *slot = Some((t, true));
                                    }
                                }
                            }
                            crate::ev!(g.ctx, "[{:>9.3}ms] s{} server closed the connection", t as f64 / 1e6, self.sid);
                            return Err(Error::Transport(std::io::Error::new(std::io::ErrorKind::UnexpectedEof, "simulated: connection closed by peer")));
                        }
                        None
                    }
                }
            };
            match wait {
                Some(t) => {
                    tokio::select! {
                        () = tokio::time::sleep_until(t) => {}
                        () = &mut notified => {}
                    }
                }
                None => notified.await,
            }
        }
    }
}

pub const SERVER_CAPS: [&str; 6] = [
    "urn:ietf:params:netconf:base:1.0",
    "urn:ietf:params:netconf:capability:candidate:1.0",
    "urn:ietf:params:netconf:capability:confirmed-commit:1.0",
    "urn:ietf:params:netconf:capability:validate:1.0",
    "http://xml.juniper.net/netconf/junos/1.0",
    "http://xml.juniper.net/dmi/system/1.0",
];

/// Connector handed to the agent: every call is one connection attempt.
pub fn connector(sh: Sh) -> agent::verif::Connector<ATransport> {
    Arc::new(move || {
        let sh = sh.clone();
        Box::pin(async move {
            // phase 1 (no await while the lock is held): register the attempt, decide what happens
            enum Step {
                Refuse,
                RefuseAfter(usize, u64),
                Session(usize),
                Panic,
            }
            let step = {
                let mut g = sh.lock().unwrap();
                let t = now_ns(&mut g);
                g.junos.connection_attempts.push(t);
                let n_attempts = g.junos.connection_attempts.len();
                crate::ev!(g.ctx, "[{:>9.3}ms] connection attempt #{}", t as f64 / 1e6, n_attempts);
                let attempt = n_attempts - 1;
                g.junos.attempt_last_ns.push(t);
                g.junos.attempt_end.push(None);
                let plan = g.junos.script.get(attempt).cloned();
                if g.junos.refuse_connections > 0 {
                    g.junos.refuse_connections -= 1;
                    g.junos.attempt_end[attempt] = Some((t, true));
                    Step::Refuse
                } else if let Some(AttemptPlan { kind: AttemptKind::Panic, .. }) = plan {
                    g.junos.attempt_end[attempt] = Some((t, true));
                    Step::Panic
                } else if let Some(AttemptPlan { kind: AttemptKind::FailConnect, connect_ms, .. }) = plan {
                    Step::RefuseAfter(attempt, connect_ms)
                } else {
                    let sid = g.junos.sessions.len();
                    let mut s = SessionState::default();
                    s.attempt = Some(attempt);
                    let hello = crate::ssim::hello_with(&SERVER_CAPS, &format!("{}", 100 + sid));
                    s.outbox.push_back(OutMsg { bytes: hello, ready_at: Instant::now(), req: None });
                    g.junos.sessions.push(s);
                    Step::Session(sid)
                }
            };
            let sid = match step {
                Step::Refuse => return Err(anyhow::anyhow!("simulated: connection refused")),
                Step::Panic => panic!("simulated: the update job panics"),
                Step::RefuseAfter(attempt, ms) => {
                    if ms > 0 {
                        tokio::time::sleep(Duration::from_millis(ms)).await;
                    }
                    let mut g = sh.lock().unwrap();
                    let t = now_ns(&mut g);
                    g.junos.attempt_last_ns[attempt] = t;
                    g.junos.attempt_end[attempt] = Some((t, true));
                    return Err(anyhow::anyhow!("simulated: connection refused"));
                }
                Step::Session(sid) => sid,
            };
            let notify = Arc::new(Notify::new());
            let t = ATransport { sh, sid, notify };
            Ok(Session::verif_new(t).await?)
        })
    })
}

/// Build the paused single-threaded runtime of a history.
pub fn runtime(seed: u64) -> tokio::runtime::Runtime {
    let mut b = [0u8; 32];
    b[..8].copy_from_slice(&seed.to_le_bytes());
    b[8..16].copy_from_slice(&crate::core::mix(seed, 1).to_le_bytes());
    tokio::runtime::Builder::new_current_thread()
        .enable_all()
        .start_paused(true)
        .rng_seed(tokio::runtime::RngSeed::from_bytes(&b))
        .build()
        .expect("tokio runtime")
}

/// Move the run context into the shared state for the duration of `f`, and back afterwards.
pub fn with_shared<R>(ctx: &mut Ctx, junos: Junos, delays_ms: Vec<u64>, f: impl FnOnce(&Sh) -> R) -> (R, Junos) {
    let placeholder = Ctx::new(crate::core::Tape::from_tape(Vec::new()), ctx.tier, false);
    let owned = std::mem::replace(ctx, placeholder);
    let sh: Sh = Arc::new(Mutex::new(Shared { ctx: owned, junos, delays_ms }));
    let r = f(&sh);
    let mut g = sh.lock().unwrap();
    let placeholder = Ctx::new(crate::core::Tape::from_tape(Vec::new()), g.ctx.tier, false);
    *ctx = std::mem::replace(&mut g.ctx, placeholder);
    let junos = std::mem::take(&mut g.junos);
    (r, junos)
}

// ---------------------------------------------------------------------------------------------
// FakeJunos behind a real TLS listener (for the agent executable, which runs as a child process)
// ---------------------------------------------------------------------------------------------

/// Serve `junos` as a NETCONF-over-TLS server on 127.0.0.1:<ephemeral port> (real clock, own
/// thread and runtime) until `stop` is set: every connection is one session of the model; the
/// bytes read are handed to `Junos::on_bytes` and its replies written back at once.
pub fn serve_junos_tls(junos: Arc<Mutex<Junos>>, stop: Arc<std::sync::atomic::AtomicBool>) -> std::io::Result<(u16, std::thread::JoinHandle<()>)> {
    use std::sync::atomic::Ordering;
    use tokio::io::{AsyncReadExt, AsyncWriteExt};
    let std_listener = std::net::TcpListener::bind("127.0.0.1:0")?;
    std_listener.set_nonblocking(true)?;
    let port = std_listener.local_addr()?.port();
    let t = std::thread::spawn(move || {
        let rt = tokio::runtime::Builder::new_current_thread().enable_all().build().expect("runtime");
        rt.block_on(async move {
            let listener = tokio::net::TcpListener::from_std(std_listener).expect("listener");
            let acceptor = crate::rsim::tls_acceptor();
            while !stop.load(Ordering::Relaxed) {
                let accepted = tokio::time::timeout(Duration::from_millis(5), listener.accept()).await;
                let Ok(Ok((tcp, _))) = accepted else { continue };
                let _ = tcp.set_nodelay(true);
                let Ok(mut tls) = acceptor.accept(tcp).await else { continue };
                let sid = {
                    let mut j = junos.lock().unwrap();
                    let sid = j.sessions.len();
                    j.sessions.push(SessionState::default());
                    j.connection_attempts.push(0);
                    sid
                };
                let hello = crate::ssim::hello_with(&SERVER_CAPS, &format!("{}", 100 + sid));
                if tls.write_all(&hello).await.is_err() || tls.flush().await.is_err() {
                    continue;
                }
                let mut buf = vec![0u8; 16384];
                loop {
                    if stop.load(Ordering::Relaxed) {
                        break;
                    }
                    let n = match tokio::time::timeout(Duration::from_millis(20), tls.read(&mut buf)).await {
                        Err(_) => continue,
                        Ok(Ok(0)) | Ok(Err(_)) => break,
                        Ok(Ok(n)) => n,
                    };
                    let (replies, close) = {
                        let mut j = junos.lock().unwrap();
                        let r = j.on_bytes(sid, &buf[..n], 0);
                        for (_, req) in &r {
                            if let Some(k) = req {
                                if let Some(rec) = j.sessions[sid].log.get_mut(*k) {
                                    rec.delivered = true;
                                }
                            }
                        }
                        (r, j.sessions[sid].close_when_drained)
                    };
                    let mut failed = false;
                    for (bytes, _) in replies {
                        if tls.write_all(&bytes).await.is_err() {
                            failed = true;
                            break;
                        }
                    }
                    if failed || tls.flush().await.is_err() {
                        break;
                    }
                    if close {
                        let _ = tls.shutdown().await;
                        junos.lock().unwrap().sessions[sid].closed_by_server = true;
                        break;
                    }
                }
            }
        });
    });
    Ok((port, t))
}
