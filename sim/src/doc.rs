//! Server-side message generator: a small element tree plus a serialiser whose *style* is a set
//! of information-preserving rewrites (namespace prefix vs default namespace, inter-element
//! whitespace, whitespace around token-valued text, comments, attribute order and quoting, XML
//! declaration, `<x/>` vs `<x></x>`). Every potential rewrite site has a stable number, so a
//! divergence found under a composition of rewrites can be narrowed to a single site.

use crate::core::Ctx;
use crate::xml::{esc_attr, esc_text};

#[derive(Clone, Debug, PartialEq, Eq)]
pub enum K {
    E(E),
    /// free text (not trimmed by rewrites)
    T(String),
    /// token-valued text (URIs, numbers, enumeration values): may be padded with whitespace
    Tok(String),
    /// verbatim markup (an opaque payload that no rewrite touches)
    Raw(String),
}

#[derive(Clone, Debug, PartialEq, Eq)]
pub struct E {
    pub ns: &'static str,
    pub name: String,
    /// (qualified name, value); namespace declarations for attribute prefixes are given explicitly
    pub attrs: Vec<(String, String)>,
    pub kids: Vec<K>,
}

impl E {
    pub fn new(ns: &'static str, name: &str) -> Self {
        Self { ns, name: name.to_string(), attrs: Vec::new(), kids: Vec::new() }
    }
    pub fn attr(mut self, k: &str, v: &str) -> Self {
        self.attrs.push((k.to_string(), v.to_string()));
        self
    }
    pub fn kid(mut self, e: E) -> Self {
        self.kids.push(K::E(e));
        self
    }
    pub fn kids(mut self, es: impl IntoIterator<Item = E>) -> Self {
        self.kids.extend(es.into_iter().map(K::E));
        self
    }
    pub fn text(mut self, t: &str) -> Self {
        self.kids.push(K::T(t.to_string()));
        self
    }
    pub fn tok(mut self, t: &str) -> Self {
        self.kids.push(K::Tok(t.to_string()));
        self
    }
    pub fn raw(mut self, t: &str) -> Self {
        self.kids.push(K::Raw(t.to_string()));
        self
    }
    pub fn push(&mut self, e: E) {
        self.kids.push(K::E(e));
    }
}

#[derive(Clone, Copy, Debug, PartialEq, Eq, PartialOrd, Ord, Hash)]
pub enum Rw {
    NsPrefix,
    WsBetween,
    WsToken,
    Comment,
    AttrOrder,
    AttrQuote,
    Decl,
    EmptyForm,
    /// rename the prefix that an `xmlns:<p>` attribute of the element declares (declaration and uses)
    AttrNsPrefix,
}

impl Rw {
    pub fn name(self) -> &'static str {
        match self {
            Self::NsPrefix => "namespace-prefix",
            Self::WsBetween => "inter-element-whitespace",
            Self::WsToken => "whitespace-around-token",
            Self::Comment => "comment",
            Self::AttrOrder => "attribute-order",
            Self::AttrQuote => "attribute-quote",
            Self::Decl => "xml-declaration",
            Self::EmptyForm => "empty-element-form",
            Self::AttrNsPrefix => "attribute-namespace-prefix",
        }
    }
}

/// One applied (or applicable) rewrite: site number, kind, and the element it is attached to
/// (for comments: "parent>before-child").
#[derive(Clone, Debug, PartialEq, Eq, PartialOrd, Ord)]
pub struct Site {
    pub id: usize,
    pub rw: Rw,
    pub at: String,
}

pub enum Style<'a> {
    Canonical,
    /// each site is rewritten with probability num/den
    Random { ctx: &'a mut Ctx, num: usize, den: usize, enabled: Vec<Rw> },
    /// exactly these site ids
    Only(Vec<usize>),
}

pub struct Ser<'a> {
    style: Style<'a>,
    next: usize,
    /// rewrites actually applied
    pub applied: Vec<Site>,
    /// all sites seen
    pub sites: Vec<Site>,
}

impl<'a> Ser<'a> {
    pub fn new(style: Style<'a>) -> Self {
        Self { style, next: 0, applied: Vec::new(), sites: Vec::new() }
    }
    fn site(&mut self, rw: Rw, at: &str) -> bool {
        let id = self.next;
        self.next += 1;
        let s = Site { id, rw, at: at.to_string() };
        let yes = match &mut self.style {
            Style::Canonical => false,
            Style::Random { ctx, num, den, enabled } => enabled.contains(&rw) && ctx.chance(*num, *den),
            Style::Only(ids) => ids.contains(&id),
        };
        self.sites.push(s.clone());
        if yes {
            self.applied.push(s);
        }
        yes
    }

    /// Serialise a document (no end-of-message delimiter).
    pub fn document(&mut self, root: &E) -> String {
        let mut out = String::new();
        if self.site(Rw::Decl, "document") {
            out.push_str("<?xml version=\"1.0\" encoding=\"UTF-8\"?>");
        }
        // namespace prefix choice per distinct namespace, decided at the root-most element
        let mut prefixes: Vec<(&'static str, String)> = Vec::new();
        // the prolog and the epilogue of a document may hold comments (and white space) too
        if self.site(Rw::Comment, "document>before-root") {
            out.push_str("<!-- before the root element -->");
        }
        self.elem(root, "", &mut prefixes, &mut out);
        if self.site(Rw::Comment, "document>after-root") {
            out.push_str("<!-- after the root element -->");
        }
        if self.site(Rw::WsBetween, "document>after-root") {
            out.push('\n');
        }
        out
    }

    fn elem(&mut self, e: &E, inherited_default: &str, prefixes: &mut Vec<(&'static str, String)>, out: &mut String) {
        let depth = prefixes.len();
        let mut decls: Vec<(String, String)> = Vec::new();
        let mut default_ns = inherited_default.to_string();
        let qname;
        if e.ns.is_empty() {
            qname = e.name.clone();
            if !default_ns.is_empty() {
                decls.push(("xmlns".into(), String::new()));
                default_ns = String::new();
            }
        } else if let Some((_, p)) = prefixes.iter().find(|(n, _)| *n == e.ns) {
            qname = format!("{p}:{}", e.name);
        } else if default_ns == e.ns {
            qname = e.name.clone();
        } else {
            // first element of this namespace on this path: decide prefix vs default
            let label = format!("{}(ns first used)", e.name);
            if self.site(Rw::NsPrefix, &label) {
                let p = format!("p{}", prefixes.len());
                decls.push((format!("xmlns:{p}"), e.ns.to_string()));
                prefixes.push((e.ns, p.clone()));
                qname = format!("{p}:{}", e.name);
            } else {
                decls.push(("xmlns".into(), e.ns.to_string()));
                default_ns = e.ns.to_string();
                qname = e.name.clone();
            }
        }
        out.push('<');
        out.push_str(&qname);
        let mut attrs: Vec<(String, String)> = e.attrs.clone();
        // prefixes declared on this element for its own attributes may be renamed
        let declared: Vec<String> = attrs.iter().filter_map(|(k, _)| k.strip_prefix("xmlns:").map(str::to_string)).collect();
        for (n, p) in declared.iter().enumerate() {
            if self.site(Rw::AttrNsPrefix, &format!("{}@xmlns:{p}", e.name)) {
                let q = format!("r{n}{p}x");
                for (k, _) in &mut attrs {
                    if *k == format!("xmlns:{p}") {
                        *k = format!("xmlns:{q}");
                    } else if let Some(rest) = k.strip_prefix(&format!("{p}:")) {
                        *k = format!("{q}:{rest}");
                    }
                }
            }
        }
        attrs.extend(decls);
        if attrs.len() >= 2 && self.site(Rw::AttrOrder, &e.name) {
            attrs.reverse();
        }
        for (k, v) in &attrs {
            out.push(' ');
            out.push_str(k);
            if self.site(Rw::AttrQuote, &format!("{}@{k}", e.name)) {
                out.push_str("='");
                out.push_str(&esc_attr(v));
                out.push('\'');
            } else {
                out.push_str("=\"");
                out.push_str(&esc_attr(v));
                out.push('"');
            }
        }
        if e.kids.is_empty() {
            // both sites are always numbered (site ids must not depend on which rewrites are applied);
            // the comment only has an effect inside the expanded form
            let expand = self.site(Rw::EmptyForm, &e.name);
            let comment_inside = self.site(Rw::Comment, &format!("{}>inside-empty", e.name));
            if expand {
                out.push('>');
                if comment_inside {
                    out.push_str("<!-- a comment -->");
                }
                out.push_str("</");
                out.push_str(&qname);
                out.push('>');
            } else {
                out.push_str("/>");
            }
            prefixes.truncate(depth);
            return;
        }
        out.push('>');
        let has_elems = e.kids.iter().any(|k| matches!(k, K::E(_)));
        let ws = has_elems && self.site(Rw::WsBetween, &e.name);
        for k in &e.kids {
            if has_elems {
                let before = match k {
                    K::E(c) => c.name.clone(),
                    _ => "text".into(),
                };
                if self.site(Rw::Comment, &format!("{}>before-{before}", e.name)) {
                    out.push_str("<!-- a comment -->");
                }
                if ws {
                    out.push_str("\n  ");
                }
            }
            match k {
                K::E(c) => self.elem(c, &default_ns, prefixes, out),
                K::T(t) => out.push_str(&esc_text(t)),
                K::Raw(t) => out.push_str(t),
                K::Tok(t) => {
                    if self.site(Rw::WsToken, &e.name) {
                        out.push_str("\n    ");
                        out.push_str(&esc_text(t));
                        out.push_str("\n  ");
                    } else {
                        out.push_str(&esc_text(t));
                    }
                }
            }
        }
        if has_elems {
            if self.site(Rw::Comment, &format!("{}>at-end", e.name)) {
                out.push_str("<!-- a comment -->");
            }
            if ws {
                out.push('\n');
            }
        }
        out.push_str("</");
        out.push_str(&qname);
        out.push('>');
        prefixes.truncate(depth);
    }
}

pub fn canonical(root: &E) -> String {
    Ser::new(Style::Canonical).document(root)
}

pub const ALL_RW: [Rw; 9] = [Rw::NsPrefix, Rw::WsBetween, Rw::WsToken, Rw::Comment, Rw::AttrOrder, Rw::AttrQuote, Rw::Decl, Rw::EmptyForm, Rw::AttrNsPrefix];

// ---------------------------------------------------------------------------------------------
// rpc-error generator (shared by C08, C13, C14)
// ---------------------------------------------------------------------------------------------

pub const NS: &str = "urn:ietf:params:xml:ns:netconf:base:1.0";
pub const XNM: &str = "http://xml.juniper.net/xnm/1.1/xnm";
pub const JCMD: &str = "http://yang.juniper.net/junos/jcmd";

pub const ERROR_TYPES: [(&str, &str); 4] = [("transport", "Transport"), ("rpc", "Rpc"), ("protocol", "Protocol"), ("application", "Application")];

pub const ERROR_TAGS: [(&str, &str); 20] = [
    ("in-use", "InUse"),
    ("invalid-value", "InvalidValue"),
    ("too-big", "TooBig"),
    ("missing-attribute", "MissingAttribute"),
    ("bad-attribute", "BadAttribute"),
    ("unknown-attribute", "UnknownAttribute"),
    ("missing-element", "MissingElement"),
    ("bad-element", "BadElement"),
    ("unknown-element", "UnknownElement"),
    ("unknown-namespace", "UnknownNamespace"),
    ("access-denied", "AccessDenied"),
    ("lock-denied", "LockDenied"),
    ("resource-denied", "ResourceDenied"),
    ("rollback-failed", "RollbackFailed"),
    ("data-exists", "DataExists"),
    ("data-missing", "DataMissing"),
    ("operation-not-supported", "OperationNotSupported"),
    ("operation-failed", "OperationFailed"),
    ("malformed-message", "MalformedMessage"),
    ("partial-operation", "PartialOperation"),
];

#[derive(Clone, Debug, PartialEq, Eq)]
pub struct RpcErr {
    pub ty: usize,
    pub tag: usize,
    pub is_error: bool,
    pub message: Option<String>,
    pub path: Option<String>,
    pub app_tag: Option<String>,
    /// (element name, value)
    pub info: Vec<(String, String)>,
    /// a child the RFC 6241 section 4.3 list does not name (vendor extension), see `EXTRAS`
    pub extra: Option<usize>,
}

/// (inside error-info?, namespace, element name, text): children that real servers add to an
/// rpc-error. Junos puts <source-daemon> next to the RFC children; error-info is open-ended
/// (RFC 6241 names ok-element / err-element / noop-element for partial-operation).
pub const EXTRAS: [(bool, &str, &str, &str); 5] = [
    (false, NS, "source-daemon", "mgd"),
    (false, "http://xml.juniper.net/junos/23.1R0/junos", "token", "unexpected"),
    (true, NS, "err-element", "policy-statement"),
    (true, NS, "ok-element", "name"),
    (true, "urn:example:vendor", "detail", "vendor specific detail"),
];

/// `gen_rpc_error`, one time in `den` with a vendor child from `EXTRAS`
pub fn gen_rpc_error_with_extras(ctx: &mut Ctx, uniq: usize, warning_weight: usize, den: usize) -> RpcErr {
    let mut e = gen_rpc_error(ctx, uniq, warning_weight);
    if ctx.chance(1, den) {
        e.extra = Some(ctx.pick(EXTRAS.len()));
    }
    e
}

pub fn gen_rpc_error(ctx: &mut Ctx, uniq: usize, warning_weight: usize) -> RpcErr {
    let ty = ctx.pick(4);
    let tag = ctx.pick(20);
    let is_error = ctx.tape.weighted(&[3, warning_weight]) == 0;
    let message = (!ctx.chance(1, 5)).then(|| format!("message M{uniq}x"));
    let path = ctx.chance(1, 3).then(|| format!("/configuration/path-P{uniq}x"));
    let app_tag = ctx.chance(1, 4).then(|| format!("app-A{uniq}x"));
    let mut info = Vec::new();
    if ctx.chance(1, 3) {
        let n = 1 + ctx.pick(2);
        for i in 0..n {
            let name = *ctx.tape.choose(&["bad-element", "bad-attribute", "bad-namespace", "session-id"]);
            let value = if name == "session-id" { format!("{}", 1 + uniq * 10 + i) } else { format!("I{uniq}-{i}x") };
            info.push((name.to_string(), value));
        }
    }
    RpcErr { ty, tag, is_error, message, path, app_tag, info, extra: None }
}

impl RpcErr {
    pub fn to_elem(&self) -> E {
        let mut e = E::new(NS, "rpc-error")
            .kid(E::new(NS, "error-type").tok(ERROR_TYPES[self.ty].0))
            .kid(E::new(NS, "error-tag").tok(ERROR_TAGS[self.tag].0))
            .kid(E::new(NS, "error-severity").tok(if self.is_error { "error" } else { "warning" }));
        if let Some(a) = &self.app_tag {
            e.push(E::new(NS, "error-app-tag").text(a));
        }
        if let Some(p) = &self.path {
            e.push(E::new(NS, "error-path").text(p));
        }
        if let Some(m) = &self.message {
            e.push(E::new(NS, "error-message").text(m));
        }
        let extra = self.extra.map(|k| EXTRAS[k]);
        if let Some((false, ns, name, text)) = extra {
            e.push(E::new(ns, name).text(text));
        }
        let info_extra = extra.filter(|x| x.0);
        if !self.info.is_empty() || info_extra.is_some() {
            let mut i = E::new(NS, "error-info");
            for (k, v) in &self.info {
                i.push(if k == "session-id" { E::new(NS, k).tok(v) } else { E::new(NS, k).text(v) });
            }
            if let Some((_, ns, name, text)) = info_extra {
                i.push(E::new(ns, name).text(text));
            }
            e.push(i);
        }
        e
    }
    /// Does `shown` (the `Display` of the library's error) and `debug` (its `Debug`) describe this error?
    pub fn matches(&self, shown: &str, debug: &str) -> Result<(), String> {
        let want_head = format!("{} {}:", ERROR_TYPES[self.ty].0, if self.is_error { "error" } else { "warning" });
        if !shown.starts_with(&want_head) {
            return Err(format!("expected '{want_head} ...', library reports '{shown}'"));
        }
        if !debug.contains(&format!("error_tag: {}", ERROR_TAGS[self.tag].1)) && !debug.contains(ERROR_TAGS[self.tag].1) {
            return Err(format!("expected error-tag {}, library reports {debug}", ERROR_TAGS[self.tag].0));
        }
        for (what, v) in [("message", &self.message), ("path", &self.path), ("app-tag", &self.app_tag)] {
            if let Some(v) = v {
                if !debug.contains(v.as_str()) {
                    return Err(format!("error-{what} '{v}' missing from {debug}"));
                }
            }
        }
        for (k, v) in &self.info {
            if !debug.contains(v.as_str()) {
                return Err(format!("error-info {k} '{v}' missing from {debug}"));
            }
        }
        Ok(())
    }
}
