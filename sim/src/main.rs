//! bgpfu-dst: deterministic simulation with fault injection for bgpfu-rs.
//!
//!   bgpfu-dst check <ID> quick|thorough      run the batch, write evidence, exit 0/1/2
//!   bgpfu-dst replay <file>                  re-execute a replay file (exit 1 = reproduced)
//!   bgpfu-dst determinism <ID> [n]           execute n seeds twice, print a digest
//!   bgpfu-dst worker ...                     (internal)

mod asim;
mod core;
mod doc;
mod driver;
mod hashseed;
mod irrd;
mod props;
mod rsim;
mod ssim;
mod xml;

use std::path::Path;

use crate::core::Tier;

fn main() {
    let args: Vec<String> = std::env::args().collect();
    let code = match args.get(1).map(String::as_str) {
        Some("check") => {
            let Some(spec) = args.get(2).and_then(|id| props::lookup(id)) else {
                eprintln!("unknown property");
                std::process::exit(2);
            };
            let tier = std::env::var("VERIF_TIER").ok().and_then(|t| Tier::parse(&t)).or_else(|| args.get(3).and_then(|t| Tier::parse(t))).unwrap_or(Tier::Quick);
            driver::check(spec, tier)
        }
        Some("worker") => {
            let spec = props::lookup(&args[2]).expect("property");
            let tier = Tier::parse(&args[3]).expect("tier");
            let seed: u64 = args[4].parse().expect("seed");
            let stripe: usize = args[5].parse().expect("stripe");
            let jobs: usize = args[6].parse().expect("jobs");
            let skip: usize = args[7].parse().expect("skip");
            driver::worker(spec, tier, seed, stripe, jobs, skip, Path::new(&args[8]))
        }
        Some("replay") => driver::replay(Path::new(&args[2]), props::lookup),
        Some("determinism") => {
            let spec = props::lookup(&args[2]).expect("property");
            let n = args.get(3).and_then(|n| n.parse().ok()).unwrap_or(2000);
            driver::determinism(spec, Tier::Quick, n)
        }
        Some("one") => {
            // bgpfu-dst one <ID> <tier> seeded|enumerated <index>   (debugging aid; VERIF_LIVE=1 prints events live)
            let spec = props::lookup(&args[2]).expect("property");
            let tier = Tier::parse(&args[3]).expect("tier");
            let index: u64 = args[5].parse().expect("index");
            if std::env::var_os("VERIF_TRACING").is_some() {
                let _ = tracing_subscriber::fmt().with_max_level(tracing::Level::DEBUG).with_writer(std::io::stderr).try_init();
            }
            let id = if args[4] == "enumerated" { core::RunId::Enumerated { index } } else { core::RunId::Seeded { index } };
            let o = core::execute_id(spec, driver::base_seed(), tier, &id, true);
            for l in o.trace.unwrap_or_default() {
                println!("  | {l}");
            }
            println!("{:?} log_hash={} tape_len={}", o.verdict, o.log_hash, o.tape.len());
            0
        }
        Some("eval-time") => {
            let db = irrd::Db::default();
            for e in &args[2..] {
                let t = std::time::Instant::now();
                let r = irrd::reference_eval(&db, e);
                println!("{e}: {:?} in {:?}", r.map(|v| v.len()), t.elapsed());
            }
            0
        }
        Some("list") => {
            for p in props::all() {
                println!("{} {} {}", p.id, p.simulator, p.level);
            }
            0
        }
        _ => {
            eprintln!("usage: bgpfu-dst check <ID> quick|thorough | replay <file> | determinism <ID> [n] | list");
            2
        }
    };
    std::process::exit(code);
}
