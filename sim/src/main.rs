fn main() { println!("bgpfu-dst"); }
