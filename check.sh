#!/bin/sh
# Entry point registered in MANIFEST.json.
#   ./check.sh <ID> quick|thorough     rebuild from /repo's working tree (hooks on), run the batch,
#                                      write evidence/<ID>.json; exit 0 held / 1 violation / 2 harness error
#   ./check.sh replay <file>           re-execute a replay file in a fresh process (exit 1 = reproduced)
#   ./check.sh determinism <ID> [n]    execute n seeds twice each and print a digest
cd /verif || exit 2
export CARGO_NET_OFFLINE=true
mkdir -p target evidence replays
if ! cargo build --release --offline >target/build.log 2>&1; then
    tail -n 40 target/build.log
    echo "HARNESS-ERROR build failed (see /verif/target/build.log)"
    exit 2
fi
BIN=/verif/target/release/bgpfu-dst
case "$1" in
    replay) exec "$BIN" replay "$2" ;;
    determinism) exec "$BIN" determinism "$2" "${3:-2000}" ;;
    list) exec "$BIN" list ;;
    *) exec "$BIN" check "$1" "${VERIF_TIER:-${2:-quick}}" ;;
esac
