pub use real_tokio::*;
pub mod task {
    pub use real_tokio::task::*;
    pub fn block_in_place<F, R>(f: F) -> R
    where
        F: FnOnce() -> R,
    {
        f()
    }
}
