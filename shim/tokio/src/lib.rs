//! tokio re-exported for the shadow build of the agent, with two seams:
//! * `task::block_in_place(f)` = `f()` on a current_thread runtime, so that the agent can run on the
//!   simulation's single-threaded runtime with a paused clock; on a multi-threaded runtime (the agent
//!   executable as a child process) it is tokio's own block_in_place, which hands the worker's other
//!   tasks to another thread;
//! * `spawn` (and `task::spawn`) can delay the first poll of the spawned task by a seeded number of
//!   virtual milliseconds (`chaos::set`). On a multi-threaded runtime the order in which freshly
//!   spawned tasks first run is not fixed; on the single-threaded simulation runtime it is, and this
//!   seam gives the simulator that choice back. Off (no delay) unless a simulation turns it on.
pub use real_tokio::*;

pub mod chaos {
    use std::cell::Cell;
    thread_local! {
        static STATE: Cell<Option<u64>> = const { Cell::new(None) };
    }
    /// `Some(seed)`: delay first polls of spawned tasks on this thread, decided by a PRNG from `seed`; `None`: off.
    pub fn set(seed: Option<u64>) {
        STATE.with(|s| s.set(seed.map(|x| x | 1)));
    }
    /// Delay (virtual ms) for the next spawned task: 0 three times out of four, else 1-3.
    pub fn next_delay() -> u64 {
        STATE.with(|s| match s.get() {
            None => 0,
            Some(mut x) => {
                x ^= x << 13;
                x ^= x >> 7;
                x ^= x << 17;
                s.set(Some(x | 1));
                match (x >> 20) % 8 {
                    0 => 1,
                    1 => 2 + (x >> 40) % 2,
                    _ => 0,
                }
            }
        })
    }
}

pub fn spawn<F>(future: F) -> real_tokio::task::JoinHandle<F::Output>
where
    F: std::future::Future + Send + 'static,
    F::Output: Send + 'static,
{
    let d = chaos::next_delay();
    if d == 0 {
        real_tokio::spawn(future)
    } else {
        real_tokio::spawn(async move {
            real_tokio::time::sleep(std::time::Duration::from_millis(d)).await;
            future.await
        })
    }
}

pub mod task {
    pub use real_tokio::task::*;
    pub fn block_in_place<F, R>(f: F) -> R
    where
        F: FnOnce() -> R,
    {
        match real_tokio::runtime::Handle::try_current().map(|h| h.runtime_flavor()) {
            Ok(real_tokio::runtime::RuntimeFlavor::CurrentThread) | Err(_) => f(),
            Ok(_) => real_tokio::task::block_in_place(f),
        }
    }
    pub fn spawn<F>(future: F) -> JoinHandle<F::Output>
    where
        F: std::future::Future + Send + 'static,
        F::Output: Send + 'static,
    {
        super::spawn(future)
    }
}
